#!/usr/bin/env python3
# Writes /verif/MANIFEST.json from the table below (kept next to the checks so that it stays valid).
import json
NA = {
 "C02": "input coercion is a pure function of (argument JSON, input type, config flags): no schedule, clock, fault or history to simulate",
 "C08": "serialisation of a value is a pure function of the value; no stream fault, timer or interleaving in the statement",
 "C09": "status, content type and the GET-only-queries rule are functions of a single request; no history, timing or fault in the statement",
 "C14": "complexity is a pure arithmetic function of (operation, variables, cost functions, limit)",
 "C16": "introspection output is a pure function of (schema, query, enabled flag)",
 "C17": "quantifies over schemas and configurations only; generation has no interleaving, clock or fault to simulate",
 "C19": "preservation of user code across regeneration is a deterministic function of (resolver files, schema sequence); the statement names no fault or nondeterminism",
}
PENDING = {}
CHECKS = {}
def check(id, level, text, note, technique, ref, thorough=True):
    CHECKS[id] = {
        "property_id": id,
        "quick_cmd": f"./check.sh {id} quick",
        **({"thorough_cmd": f"./check.sh {id} thorough"} if thorough else {}),
        "evidence_file": f"/verif/evidence/{id}.json",
        "replay_cmd_template": f"./check.sh {id} --replay {{path}}",
        "engine": "gqlsim",
        "level_claimed": {"category": level, "text": text, "design_ref": ref},
        "level_note": note,
        "technique": technique,
    }
exec(open('/verif/tools/manifest_checks.py').read())
m = {
 "version": 1,
 "setup_cmd": "./setup.sh",
 "hooks": {"guard": "verif", "enable": "no hook lives in /repo: checks copy /repo's working tree to a scratch directory, apply source-to-source passes there (tools/instrument) and build the copy with -tags verif", "baseline_off_cmd": "/verif/baseline.sh", "source_commits": [], "add_only": True},
 "engines": [{"name": "gqlsim", "path": "/verif/cmd/check + /verif/harness", "serves_properties": sorted(CHECKS), "kind_free_text": "deterministic simulation: seeded decision tape, scheduler over parked user-callback/I-O seams inside a testing/synctest bubble (fake clock, quiescence), fault injection through gqlgen's own interfaces, reference-model oracles, tape minimisation and replay"}],
 "checks": [CHECKS[k] for k in sorted(CHECKS)],
 "not_applicable": [{"property_id": k, "reason": v} for k, v in sorted({**NA, **{k: v for k, v in PENDING.items() if k not in CHECKS}}.items())],
 "notes": "Go 1.26.8 (GOTOOLCHAIN=local) is used for generation, build and run. Exit 2 = infrastructure trouble (build failure, watchdog, non-reproducing replay), never a VIOLATION.",
}
json.dump(m, open('/verif/MANIFEST.json', 'w'), indent=1)
print("checks:", sorted(CHECKS), "n/a:", [x["property_id"] for x in m["not_applicable"]])
