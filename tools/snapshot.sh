#!/bin/bash
# snapshot.sh <dir>: copies /verif (sources, probes, built tools) to <dir> for tools/run_mutant.sh SNAP=<dir>
set -e
cd /verif && ./setup.sh quiet
rm -rf "$1"; mkdir -p "$1"
rsync -a --exclude=.git --exclude=evidence --exclude=replays --exclude=seeded /verif/ "$1"/
