#!/usr/bin/env python3
# store_mutant.py <prop> <k> <detected_by (comma list or 'none')> <needs...>
import sys, json, os, shutil, re
prop, k, det = sys.argv[1], sys.argv[2], sys.argv[3]
needs = " ".join(sys.argv[4:])
pre = os.environ.get("WAVE", "")          # e.g. WAVE=w3- for the third wave
src = f"/tmp/wtout/{pre}{prop}/m{k}"
dst = f"/verif/seeded/{prop}-{pre.replace('-','')}m{k}"
if os.path.exists(dst): shutil.rmtree(dst)
os.makedirs(dst)
shutil.copy(f"{src}/patch.diff", dst)
if os.path.exists(f"{src}/patch.rebased.diff"):  # the original no longer applies after a later fix: commit
    shutil.copy(f"{src}/patch.rebased.diff", dst)
shutil.copytree(f"{src}/demo", f"{dst}/demo")
if os.path.exists(f"{src}/README.md"): shutil.copy(f"{src}/README.md", dst)
log = open(f"{os.path.dirname(src)}/verify_m{k}.log").read() if os.path.exists(f"{os.path.dirname(src)}/verify_m{k}.log") else ""
ex = dict(re.findall(r"(\w+_exit)=(\d+)", log))
base = re.findall(r"baseline: .*", log)
files = re.findall(r"^\+\+\+ b/(.*)$", open(f"{src}/patch.diff").read(), re.M)
meta = {
 "property": prop, "files_changed": files, "needs_to_manifest": needs,
 "source": "independent sub-agent given only the property text and a scratch worktree",
 "confirmed_by_me": {"worktree": f"/tmp/wt/{prop} (scratch, removed)", "command": f"tools/verify_mutant.sh {prop} {k} {pre}",
   "demo_on_clean_tree_exit": int(ex.get("clean_demo_exit", -1)), "patch_applies_exit": int(ex.get("apply_exit", -1)),
   "demo_on_changed_tree_exit": int(ex.get("mutated_demo_exit", -1)), "existing_suite": base[-1] if base else "?"},
 "checks_run": "tools/run_mutant.sh <patch> <check ids> (patch applied to a scratch worktree of /repo, quick checks against it, worktree removed)",
 "detected_by": [] if det == "none" else det.split(","),
}
json.dump(meta, open(f"{dst}/meta.json", "w"), indent=1)
print("stored", dst, meta["detected_by"])
