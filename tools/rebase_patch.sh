#!/bin/bash
# rebase_patch.sh <patch> <base-commit> <out>: re-bases a breaking change written against an older
# /repo commit onto /repo HEAD (cherry-pick in a scratch worktree); fails when it conflicts.
P=$1; BASE=$2; OUT=$3
WT=$(mktemp -d /tmp/rebase.XXXXXX)
git -C /repo worktree add -q --detach $WT $BASE || exit 2
( cd $WT && git apply $P && git -c user.name=x -c user.email=x@x commit -qam mutant && C=$(git rev-parse HEAD) && git checkout -q --detach $(git -C /repo rev-parse HEAD) && git -c user.name=x -c user.email=x@x cherry-pick $C >/dev/null && git diff HEAD~1 HEAD > $OUT ); RC=$?
git -C /repo worktree remove --force $WT
exit $RC
