
check("C01", "exploration",
  "Seeded search: every run executes one (generated variant, operation, variables, resolver-outcome plan, release order) of servers generated at check time from /repo's templates, with each resolver/directive call parked and released by the scheduler, and compares data (key order kept) and the error multiset with an independent reference executor. Sampling, not proof; right level because the property is a refinement claim over an unbounded input space.",
  "Probe schemas instead of random schemas; reference executor + plan are the trusted model; validation verdicts use an explicit rule list, not gqlparser's mutable global one (parameters P1/P2 documented in DESIGN 3.5); gqlgen-authored messages matched by path only.",
  "deterministic simulation (seeded scheduler over parked resolver calls) + reference-model refinement", "5.1")
check("C04", "fault_enumeration",
  "For each sampled (variant, operation, base plan) EVERY single fault point found by a fault-free pass (resolver call, field- and operation-directive call, argument unmarshaler, custom-scalar marshaler incl. list elements) is injected as error and as panic, then seeded multi-fault sets, on one long-lived server; each execution must equal the reference under the same overlay, RecoverFunc count must equal injected panics, and an unrecovered panic kills the worker and is attributed to the run.",
  "Reference executor is the model of 'only that position fails'; subscription-event, background-resolver and websocket operation-directive contexts live in the websocket scenario; one shape (several failing elements of a scalar list reported as one error) is a recorded known finding; status code of a serialisation panic not asserted.",
  "deterministic simulation: single-fault sweep + seeded multi-fault sets against a reference model", "5.4")
check("C05", "fault_enumeration",
  "For each sampled (variant incl. worker_limit 0/1/2/8, operation, plan) the request context is cancelled at EVERY quiescent point of the execution; oracle is quiescence-based: nothing parked and request unfinished = hang (with the blocked stack), and after end+cancel no goroutine created by gqlgen may remain in the bubble (synctest goroutine dump).",
  "synctest's durable-blocking detection is trusted; resolvers return promptly once released (premise); streaming transports' end-of-life is checked by C11/C12 scenarios.",
  "deterministic simulation: cancellation-point sweep with quiescence/leak oracle", "5.5")
check("C06", "exploration",
  "Each (variant, operation, plan) is executed under six schedules (canonical, reversed, deepest-first, seeded one-at-a-time, seeded burst) in a -race binary; results must be identical and equal to the reference; the mutation-root serial invariant is checked at every quiescent point.",
  "Interleavings at the granularity of user callbacks; finer interference only through the Go race detector under burst releases.",
  "deterministic simulation: schedule search with race detector, cross-schedule equality + serial-root invariant", "5.6")
check("C13", "exploration",
  "Operations with @defer on seeded subsets of fragments run with group completion order chosen by the scheduler; the payload sequence is checked for discipline (hasNext, termination, once-only), arrival-order applicability of paths, and merged content against the reference executor with propagation stopping at failed groups. Two genuine defects are recorded as known findings.",
  "Group membership is read from the payloads, not predicted; comparison of merged data ignores key order.",
  "deterministic simulation: group-completion-order search + defer-aware reference model", "5.13")
check("C03", "exploration",
  "Histories of requests (valid documents and systematically invalidated variants, repeated so that caches hit) against one executor / handler.Server with seeded sets of instrumented extensions, cache kinds and suggestion settings, launched sequentially, overlapped or simultaneously; verdicts come from gqlparser alone; rejected requests must leave no interceptor/directive/resolver event, accepted ones must satisfy the lifecycle grammar and the reference executor; -race binary.",
  "Subscriptions excluded (their gate is in C11's scenario); the process-global suggestion switch is chosen per worker process; the RemoveRule/ReplaceRule window has no seam and is covered through the race detector only.",
  "deterministic simulation: request-history search with lifecycle-grammar monitor + race detector", "5.3")
check("C15", "exploration",
  "Request histories over a small alphabet (8 texts incl. twins that differ only in string-literal whitespace or alias case x 9 request forms, POST and GET) against handler.Server+APQ with a harness cache that parks, evicts and drops; sequential histories are checked step by step against a 3-line model, overlapped ones with porcupine (linearizability against the same model), plus the invariant that every cache entry's key is the SHA-256 of its value.",
  "The model treats PersistedQueryNotFound as always legal for hash-only requests (eviction); porcupine timeouts are exit 2.",
  "deterministic simulation: history search + porcupine linearizability against a reference model", "5.15")
check("C12", "exploration",
  "Streamed responses (SSE with keep-alive intervals down to 2us; multipart/mixed with delivery timeouts 1-50ms) are produced under seeded interleavings of payload production, timer ticks on the fake clock, slow-client writes (split at a seeded byte and parked) and disconnects; the raw bytes are parsed by a strict SSE parser / mime/multipart + strict JSON and compared, exactly-once and in order, with the payloads recorded by an innermost response interceptor; a Write entering while another is in progress is a violation; -race binary.",
  "net/http's server loop is not in the simulation (ServeHTTP is called directly on a simulated ResponseWriter); transport mutexes are replaced by durable channel mutexes in the scratch copy.",
  "deterministic simulation: fake-clock timing search with slow/disconnecting client faults + strict stream parsers", "5.12")
check("C11", "exploration",
  "Whole websocket sessions (real gorilla client and gqlgen transport over a pipe, fake clock) are driven by seeded sequences of client messages, server-side emissions, timer advances, write completions/failures and cancellations; a per-connection monitor over the server's frame log, the resolver events and the operation contexts checks the protocol rules of the statement, plus goroutine/close-callback accounting at the end; -race binary, transport mutexes made durable in the scratch copy.",
  "Unique ids per connection; message texts and close codes are not asserted; net/http's own connection handling is outside the simulation.",
  "deterministic simulation: session search over message/emission/timer interleavings with a protocol monitor", "5.11")
check("C20", "fault_enumeration",
  "Seeded _entities requests over a federation probe generated at check time (single/alternative/nested keys, @requires incl. two selections normalising to one Go name, batch resolvers with and without @requires) with single and paired per-representation faults; every entity resolver call parks and completes in a tape-chosen order (incl. bursts under the race detector); element i must equal the echo computed from representation i alone or be null when it was faulted, neighbours must be untouched, RecoverFunc once per panic. Three genuine batch-resolver defects are recorded as known findings.",
  "Echo resolvers are harness code on both sides of the comparison; explicit/computed requires variants not generated.",
  "deterministic simulation: per-representation fault injection + completion-order search with an echo oracle", "5.20")
check("C10", "fault_enumeration",
  "Valid requests on every transport are subjected to one seeded fault each (stream cut/read error at a byte, re-chunking, Content-Length lie, structured JSON corruption; for uploads: size limits, spill files, temp dir failures, part order/dup/drop, map path corruption; for websocket: malformed frames); the recover hook must never fire (user code does not panic), the answer must be a well-formed GraphQL error or success, limits must hold, the private TMPDIR must be empty, well-formed uploads must deliver exact bytes to every mapped path.",
  "Narrower than the statement's 'any bytes': structured faults around valid requests, not exhaustive fuzzing; disk-full / read-only directory not simulated.",
  "deterministic simulation: stream/disk/frame fault injection with a no-recover + well-formedness oracle", "5.10")
check("C07", "exploration",
  "Seeded histories of requests over six HTTP transports against one long-lived server (2-entry LRU document cache, APQ, introspection), sequential or overlapped at resolver calls, with optional members present in one request and absent in the next; every response (status, content type, body) must equal the response of a fresh server to that request alone; hash-only APQ requests must answer NotFound or their registered text.",
  "Fresh-server oracle computed in the same process with the POST pool emptied by GC; GOMAXPROCS=1 makes pool reuse deterministic; websocket cross-operation leakage not covered.",
  "deterministic simulation: request-history search with a fresh-server differential oracle", "5.7")
check("C18", "exploration",
  "The generator is run as a child process built from a scratch copy in which every range over a map in the generator packages iterates in a seeded order; each run generates one of five probe projects (single-file, follow-schema + function syntax, federation, name-collision stress, legacy config without exec.layout and with value-field cycles) under a seeded order, start directory, prior tree state and GOMAXPROCS, and every file must hash to the canonical generation (which must also agree between processes); re-generation over existing output must change nothing.",
  "Probe projects instead of random schemas; iteration order inside dependencies is not seeded; ~4 s per generation bounds the number of runs.",
  "deterministic simulation: seeded map-iteration order via source instrumentation + byte-identity oracle", "5.18")
