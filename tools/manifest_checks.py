PENDING.update({k: "check not built yet at this commit (planned, see DESIGN.md section 5)" for k in ["C03","C04","C05","C07","C10","C11","C12","C13","C15","C18","C20"]})
check("C01", "exploration",
  "Seeded search: every run executes one (generated variant, operation, variables, resolver-outcome plan, release order) of servers generated at check time from /repo's templates, with each resolver/directive call parked and released by the scheduler, and compares data (key order kept) and the error multiset with an independent reference executor. Sampling, not proof; right level because the property is a refinement claim over an unbounded input space.",
  "Probe schemas instead of random schemas; reference executor + plan are the trusted model (parameters P1/P2 documented in DESIGN 3.5); gqlgen-authored messages matched by path only.",
  "deterministic simulation (seeded scheduler over parked resolver calls) + reference-model refinement", "5.1")
check("C06", "exploration",
  "Each (variant, operation, plan) is executed under six schedules (canonical, reversed, deepest-first, seeded one-at-a-time, seeded burst) in a -race binary; results must be identical and equal to the reference; the mutation-root serial invariant is checked at every quiescent point.",
  "Interleavings at the granularity of user callbacks; finer interference only through the Go race detector under burst releases.",
  "deterministic simulation: schedule search with race detector, cross-schedule equality + serial-root invariant", "5.6")
