// Command instrument applies source-to-source passes to a scratch copy of gqlgen (never to /repo):
//
//	-mutex     rewrite sync.Mutex / sync.RWMutex in graphql/handler/transport to channel-based
//	           mutexes that block durably under testing/synctest and whose Lock is a scheduler seam
//	-maporder  rewrite every range-over-map in the generator packages to iterate in an order
//	           decided by simorder.Keys (seeded), so that map iteration becomes a tape choice
//
// It prints one "SITE <file:line what>" line per rewritten site.
package main

import (
	"bytes"
	"flag"
	"fmt"
	"go/ast"
	"go/format"
	"go/parser"
	"go/token"
	"os"
	"path/filepath"
	"sort"
	"strings"
)

func main() {
	root := flag.String("root", "", "root of the scratch copy of gqlgen")
	mutex := flag.Bool("mutex", false, "durable mutex pass")
	maporder := flag.Bool("maporder", false, "seeded map iteration pass")
	flag.Parse()
	if *root == "" {
		fmt.Fprintln(os.Stderr, "instrument: -root required")
		os.Exit(2)
	}
	if *mutex {
		if err := mutexPass(filepath.Join(*root, "graphql/handler/transport")); err != nil {
			fmt.Fprintln(os.Stderr, "instrument:", err)
			os.Exit(1)
		}
	}
	if *maporder {
		if err := mapOrderPass(*root); err != nil {
			fmt.Fprintln(os.Stderr, "instrument:", err)
			os.Exit(1)
		}
	}
}

const simMutexSrc = `package transport

import (
	"sync"
)

// Code added by /verif/tools/instrument to the scratch copy only.

// SimLockHook, when set, is called before a simMutex is acquired. free reports whether the mutex
// is currently unlocked. The hook may block: the simulation's scheduler grants lock requests.
var SimLockHook func(free func() bool)

type simMutex struct {
	once sync.Once
	ch   chan struct{}
}

func (m *simMutex) init() { m.once.Do(func() { m.ch = make(chan struct{}, 1) }) }

func (m *simMutex) Lock() {
	m.init()
	if h := SimLockHook; h != nil {
		h(func() bool { return len(m.ch) == 0 })
	}
	m.ch <- struct{}{}
}

func (m *simMutex) Unlock() {
	m.init()
	<-m.ch
}

// simRWMutex: readers are treated as writers (stricter exclusion, same happens-before edges or more).
type simRWMutex struct{ simMutex }

func (m *simRWMutex) RLock()   { m.Lock() }
func (m *simRWMutex) RUnlock() { m.Unlock() }

var _ sync.Locker = (*simMutex)(nil)
`

func mutexPass(dir string) error {
	ents, err := os.ReadDir(dir)
	if err != nil {
		return err
	}
	n := 0
	for _, e := range ents {
		name := e.Name()
		if !strings.HasSuffix(name, ".go") || strings.HasSuffix(name, "_test.go") {
			continue
		}
		path := filepath.Join(dir, name)
		fset := token.NewFileSet()
		f, err := parser.ParseFile(fset, path, nil, parser.ParseComments)
		if err != nil {
			return err
		}
		changed := false
		// only type positions: struct fields, var declarations, composite literals
		rewrite := func(expr *ast.Expr) {
			sel, ok := (*expr).(*ast.SelectorExpr)
			if !ok {
				return
			}
			id, ok := sel.X.(*ast.Ident)
			if !ok || id.Name != "sync" {
				return
			}
			switch sel.Sel.Name {
			case "Mutex":
				*expr = ast.NewIdent("simMutex")
			case "RWMutex":
				*expr = ast.NewIdent("simRWMutex")
			default:
				return
			}
			changed = true
			n++
			fmt.Printf("SITE %s:%d sync.%s -> durable scheduler-granted mutex\n", filepath.Join("graphql/handler/transport", name), fset.Position(sel.Pos()).Line, sel.Sel.Name)
		}
		ast.Inspect(f, func(nd ast.Node) bool {
			switch x := nd.(type) {
			case *ast.Field:
				rewrite(&x.Type)
			case *ast.ValueSpec:
				if x.Type != nil {
					rewrite(&x.Type)
				}
			case *ast.CompositeLit:
				if x.Type != nil {
					rewrite(&x.Type)
				}
			}
			return true
		})
		if !changed {
			continue
		}
		var buf bytes.Buffer
		if err := format.Node(&buf, fset, f); err != nil {
			return err
		}
		src := buf.String()
		// keep the sync import used even if the mutex was its only use
		if !strings.Contains(src, "var _ sync.Locker") {
			src += "\nvar _ sync.Locker = (*simMutex)(nil)\n"
		}
		if err := os.WriteFile(path, []byte(src), 0o644); err != nil {
			return err
		}
	}
	if n == 0 {
		return fmt.Errorf("mutex pass matched nothing in %s", dir)
	}
	return os.WriteFile(filepath.Join(dir, "zz_simmutex.go"), []byte(simMutexSrc), 0o644)
}

var _ = sort.Strings
