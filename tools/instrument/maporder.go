package main

import "fmt"

func mapOrderPass(root string) error { return fmt.Errorf("maporder pass not built yet") }
