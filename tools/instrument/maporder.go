package main

import (
	"fmt"
	"go/ast"
	"go/token"
	"go/types"
	"os"
	"path/filepath"
	"sort"
	"strings"

	"golang.org/x/tools/go/packages"
)

// generator packages whose map iterations are made seeded
var genPkgs = []string{
	"./api", "./codegen", "./codegen/config", "./codegen/templates", "./plugin", "./plugin/modelgen",
	"./plugin/resolvergen", "./plugin/federation", "./plugin/federation/fieldset", "./plugin/stubgen",
	"./plugin/servergen", "./internal/code", "./internal/imports", "./internal/rewrite",
}

const simorderSrc = `// Package simorder is added by /verif/tools/instrument to the scratch copy only. It turns Go's
// randomised map iteration in the generator into a seeded choice: Keys returns the keys sorted and
// then permuted by a PRNG seeded from SIMORDER_SEED and a per-call counter. Seed 0 (or unset)
// leaves them sorted. Key types without a natural order keep Go's own (unseeded) order.
package simorder

import (
	"fmt"
	"os"
	"reflect"
	"sort"
	"strconv"
	"sync/atomic"
)

var seed = func() uint64 {
	s, _ := strconv.ParseUint(os.Getenv("SIMORDER_SEED"), 10, 64)
	return s
}()

var calls atomic.Uint64

func mix(x uint64) uint64 {
	x += 0x9e3779b97f4a7c15
	x = (x ^ (x >> 30)) * 0xbf58476d1ce4e5b9
	x = (x ^ (x >> 27)) * 0x94d049bb133111eb
	return x ^ (x >> 31)
}

func Keys[K comparable, V any](m map[K]V) []K {
	keys := make([]K, 0, len(m))
	for k := range m {
		keys = append(keys, k)
	}
	n := calls.Add(1)
	if len(keys) < 2 {
		return keys
	}
	switch reflect.TypeOf(keys[0]).Kind() {
	case reflect.String, reflect.Int, reflect.Int8, reflect.Int16, reflect.Int32, reflect.Int64,
		reflect.Uint, reflect.Uint8, reflect.Uint16, reflect.Uint32, reflect.Uint64, reflect.Bool, reflect.Float64:
		sort.Slice(keys, func(i, j int) bool { return fmt.Sprint(keys[i]) < fmt.Sprint(keys[j]) })
	default:
		return keys // no stable order available: Go's own randomisation stays
	}
	if seed == 0 {
		return keys
	}
	state := mix(seed ^ mix(n))
	for i := len(keys) - 1; i > 0; i-- {
		state = mix(state)
		j := int(state % uint64(i+1))
		keys[i], keys[j] = keys[j], keys[i]
	}
	return keys
}
`

func simpleExpr(e ast.Expr) bool {
	switch x := e.(type) {
	case *ast.Ident:
		return true
	case *ast.SelectorExpr:
		return simpleExpr(x.X)
	case *ast.IndexExpr:
		return simpleExpr(x.X) && simpleExpr(x.Index)
	case *ast.ParenExpr:
		return simpleExpr(x.X)
	case *ast.BasicLit:
		return true
	case *ast.StarExpr:
		return simpleExpr(x.X)
	}
	return false
}

type edit struct {
	start, end int
	text       string
}

func mapOrderPass(root string) error {
	cfg := &packages.Config{Mode: packages.NeedName | packages.NeedFiles | packages.NeedSyntax | packages.NeedTypes | packages.NeedTypesInfo | packages.NeedCompiledGoFiles, Dir: root, Tests: false}
	pkgs, err := packages.Load(cfg, genPkgs...)
	if err != nil {
		return err
	}
	nsites := 0
	for _, pkg := range pkgs {
		if len(pkg.Errors) > 0 {
			return fmt.Errorf("loading %s: %v", pkg.PkgPath, pkg.Errors[0])
		}
		for i, f := range pkg.Syntax {
			path := pkg.CompiledGoFiles[i]
			if strings.HasSuffix(path, "_test.go") || !strings.HasPrefix(path, root) {
				continue
			}
			src, err := os.ReadFile(path)
			if err != nil {
				return err
			}
			var edits []edit
			fset := pkg.Fset
			off := func(p token.Pos) int { return fset.Position(p).Offset }
			ast.Inspect(f, func(n ast.Node) bool {
				rs, ok := n.(*ast.RangeStmt)
				if !ok {
					return true
				}
				tv, ok := pkg.TypesInfo.Types[rs.X]
				if !ok {
					return true
				}
				if _, isMap := tv.Type.Underlying().(*types.Map); !isMap {
					return true
				}
				rel, _ := filepath.Rel(root, path)
				line := fset.Position(rs.Pos()).Line
				if !simpleExpr(rs.X) {
					fmt.Printf("SKIPPED %s:%d range over a map expression with possible side effects\n", rel, line)
					return true
				}
				x := string(src[off(rs.X.Pos()):off(rs.X.End())])
				name := func(e ast.Expr) string {
					if e == nil {
						return ""
					}
					s := string(src[off(e.Pos()):off(e.End())])
					if s == "_" {
						return ""
					}
					return s
				}
				k, v := name(rs.Key), name(rs.Value)
				var pre strings.Builder
				pre.WriteString("for _, simk__ := range simorder.Keys(" + x + ") {\n")
				if rs.Tok == token.ASSIGN {
					pre.WriteString("var simok__ bool\n")
					if v != "" {
						pre.WriteString(v + ", simok__ = " + x + "[simk__]\n")
					} else {
						pre.WriteString("_, simok__ = " + x + "[simk__]\n")
					}
					pre.WriteString("if !simok__ {\ncontinue\n}\n")
					if k != "" {
						pre.WriteString(k + " = simk__\n")
					}
				} else {
					if v != "" {
						pre.WriteString(v + ", simok__ := " + x + "[simk__]\n")
					} else {
						pre.WriteString("_, simok__ := " + x + "[simk__]\n")
					}
					pre.WriteString("if !simok__ {\ncontinue\n}\n")
					if k != "" {
						pre.WriteString(k + " := simk__\n")
					}
				}
				// replace "for ... range X {" up to and including the body's opening brace
				edits = append(edits, edit{off(rs.Pos()), off(rs.Body.Lbrace) + 1, pre.String()})
				nsites++
				fmt.Printf("SITE %s:%d range over %s made seeded\n", rel, line, x)
				return true
			})
			if len(edits) == 0 {
				continue
			}
			sort.Slice(edits, func(i, j int) bool { return edits[i].start > edits[j].start })
			out := src
			for _, e := range edits {
				out = append(append(append([]byte{}, out[:e.start]...), []byte(e.text)...), out[e.end:]...)
			}
			// add the import
			s := string(out)
			imp := "\t\"github.com/99designs/gqlgen/internal/simorder\"\n"
			if i := strings.Index(s, "import (\n"); i >= 0 {
				s = s[:i+len("import (\n")] + imp + s[i+len("import (\n"):]
			} else if i := strings.Index(s, "\nimport "); i >= 0 {
				s = s[:i+1] + "import \"github.com/99designs/gqlgen/internal/simorder\"\n" + s[i+1:]
			} else {
				return fmt.Errorf("%s: no import declaration to extend", path)
			}
			if err := os.WriteFile(path, []byte(s), 0o644); err != nil {
				return err
			}
		}
	}
	if nsites == 0 {
		return fmt.Errorf("maporder pass matched nothing")
	}
	dir := filepath.Join(root, "internal", "simorder")
	if err := os.MkdirAll(dir, 0o755); err != nil {
		return err
	}
	return os.WriteFile(filepath.Join(dir, "simorder.go"), []byte(simorderSrc), 0o644)
}
