#!/usr/bin/env python3
# prints the gqlgen config of one probe variant
import json, sys
probe, name = sys.argv[1], sys.argv[2]
vs = {v["name"]: v for v in json.load(open(f"/verif/probes/{probe}/variants.json"))}
v = vs[name]
d = f"probe/{name}"
out = [f"schema: [{d}/*.graphql]"]
pkg = v.get("package", probe)
if v.get("layout") == "follow":
    out.append(f"exec: {{layout: follow-schema, dir: {d}, package: {pkg}" + (f", worker_limit: {v['worker_limit']}" if v.get("worker_limit") else "") + "}")
else:
    out.append(f"exec: {{filename: {d}/generated.go, package: {pkg}" + (f", worker_limit: {v['worker_limit']}" if v.get("worker_limit") else "") + "}")
out.append(f"model: {{filename: {d}/models_gen.go, package: {pkg}}}")
if v.get("federation"):
    out.append(f"federation: {{filename: {d}/federation.go, package: {pkg}" + v["federation"] + "}")
out.append("skip_mod_tidy: true")
out.append("skip_validation: true")
out.append(v.get("extra", "").rstrip("\n"))
out.append(open(f"/verif/probes/{probe}/" + v.get("models", "models.yml")).read().replace("@V@", name))
print("\n".join(x for x in out if x))
