#!/bin/bash
# verify_mutant.sh <prop> <k>: confirms a sub-agent's mutant in its scratch worktree /tmp/wt/<prop>:
# demo passes on the clean tree, patch applies, demo fails with it, existing suite still passes.
P=$1; K=$2; PRE=${3:-}; WT=/tmp/wt/$P; M=/tmp/wtout/$PRE$P/m$K; LOG=/tmp/wtout/$PRE$P/verify_m$K.log
exec > $LOG 2>&1
cd $WT && git checkout -q -- . && git clean -fdq
echo "== demo on clean tree"; bash $M/demo/run.sh $WT; echo "clean_demo_exit=$?"
git -C $WT checkout -q -- . ; git -C $WT clean -fdq
echo "== apply"; git -C $WT apply $M/patch.diff; echo "apply_exit=$?"
echo "== demo on mutated tree"; bash $M/demo/run.sh $WT; echo "mutated_demo_exit=$?"
git -C $WT clean -fdq -e '*' >/dev/null 2>&1
# remove demo leftovers but keep the patch applied
git -C $WT stash -q -u 2>/dev/null; git -C $WT stash drop -q 2>/dev/null; git -C $WT apply $M/patch.diff
echo "== suite on mutated tree"; /verif/baseline.sh $WT; echo "suite_exit=$?"
git -C $WT checkout -q -- . ; git -C $WT clean -fdq
