#!/bin/bash
# run_mutant.sh <patch> <check-id>...: applies a patch to a scratch worktree of /repo (never to
# /repo itself), runs the given quick checks against it (development overrides VERIF_DEV_REPO /
# VERIF_DEV_OUT keep /verif/evidence and /verif/replays untouched), removes the worktree.
# With SNAP=<dir> (a copy of /verif made by tools/snapshot.sh) the checks run from that copy, so
# /verif can be edited meanwhile.
PATCH=$1; shift
V=${SNAP:-/verif}
WT=$(mktemp -d /tmp/mutrepo.XXXXXX); OUT=$(mktemp -d /tmp/mutout.XXXXXX)
git -C /repo worktree add -q --detach $WT HEAD || exit 2
git -C $WT apply $PATCH || { echo "apply failed"; git -C /repo worktree remove --force $WT; exit 2; }
export PATH=/opt/veriftools/go1.26.8/bin:$PATH GOTOOLCHAIN=local GOFLAGS=-mod=mod GOPROXY=off GOSUMDB=off
for C in "$@"; do
  OUTTXT=$(cd $V && VERIF_DEV_DIR=$V VERIF_DEV_REPO=$WT VERIF_DEV_OUT=$OUT ./bin/check $C quick 2>&1); RC=$?
  echo "  check $C exit=$RC $(echo "$OUTTXT" | grep -c '^VIOLATION') violation(s): $(echo "$OUTTXT" | grep 'fingerprint' | head -3 | sed 's/^ *//' | cut -c1-160 | tr '\n' '|')"
  [ $RC -eq 2 ] && echo "$OUTTXT" | tail -5
done
git -C /repo worktree remove --force $WT; rm -rf $OUT
