#!/bin/bash
# run_mutant.sh <patch> <check-id>...: applies a patch to /repo, runs the given quick checks, reverts.
PATCH=$1; shift
cd /repo && git diff --quiet || { echo "repo dirty"; exit 2; }
git -C /repo apply $PATCH || { echo "apply failed"; exit 2; }
for C in "$@"; do
  OUT=$(cd /verif && ./check.sh $C quick 2>&1); RC=$?
  echo "  check $C exit=$RC $(echo "$OUT" | grep -c '^VIOLATION') violation(s): $(echo "$OUT" | grep 'fingerprint' | head -3 | sed 's/^ *//' | cut -c1-160 | tr '\n' '|')"
  [ $RC -eq 2 ] && echo "$OUT" | tail -5
done
git -C /repo checkout -- . ; git -C /repo clean -fdq
