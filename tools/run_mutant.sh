#!/bin/bash
# run_mutant.sh <patch> <check-id>...: applies a patch to a scratch worktree of /repo (never to
# /repo itself), runs the given quick checks against it (development overrides VERIF_DEV_REPO /
# VERIF_DEV_OUT keep /verif/evidence and /verif/replays untouched), removes the worktree.
PATCH=$1; shift
WT=$(mktemp -d /tmp/mutrepo.XXXXXX); OUT=$(mktemp -d /tmp/mutout.XXXXXX)
git -C /repo worktree add -q --detach $WT HEAD || exit 2
git -C $WT apply $PATCH || { echo "apply failed"; git -C /repo worktree remove --force $WT; exit 2; }
for C in "$@"; do
  OUTTXT=$(cd /verif && VERIF_DEV_REPO=$WT VERIF_DEV_OUT=$OUT ./check.sh $C quick 2>&1); RC=$?
  echo "  check $C exit=$RC $(echo "$OUTTXT" | grep -c '^VIOLATION') violation(s): $(echo "$OUTTXT" | grep 'fingerprint' | head -3 | sed 's/^ *//' | cut -c1-160 | tr '\n' '|')"
  [ $RC -eq 2 ] && echo "$OUTTXT" | tail -5
done
git -C /repo worktree remove --force $WT; rm -rf $OUT
