package model

import (
	"fmt"
	"io"
	"strconv"
)

// Blob is the hand-written custom scalar of the probe. Its (un)marshalers consult BlobHook so
// that the simulation can make serialisation or input coercion fail at a chosen value.
type Blob struct{ S string }

// BlobHook is installed by the harness. op is "marshal" or "unmarshal"; returning a non-nil
// error from "unmarshal" fails the coercion, panicking inside the hook simulates a panicking
// (un)marshaler.
var BlobHook func(op string, s string) error

func (b Blob) MarshalGQL(w io.Writer) {
	if BlobHook != nil {
		_ = BlobHook("marshal", b.S)
	}
	io.WriteString(w, strconv.Quote(b.S))
}

func (b *Blob) UnmarshalGQL(v any) error {
	s, ok := v.(string)
	if !ok {
		return fmt.Errorf("Blob must be a string")
	}
	if BlobHook != nil {
		if err := BlobHook("unmarshal", s); err != nil {
			return err
		}
	}
	b.S = s
	return nil
}
