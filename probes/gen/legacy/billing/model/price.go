// Package model is a second package called "model": resolver files that use it together with the
// generated graph/model need a numbered import alias for one of them.
package model

type Price struct {
	Cents int
}
