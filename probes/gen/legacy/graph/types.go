package graph

// Money is a hand-written model living beside the generated server.
type Money struct {
	Amount   int
	Currency string
}
