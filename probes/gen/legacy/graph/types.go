package graph

// Money is a hand-written model living beside the generated server.
type Money struct {
	Amount   int
	Currency string
}

// a function-local variable with the name of a model type: legal Go, and of no concern to the binder
func describe() string {
	Money := "money"
	return Money
}
