module verif

go 1.26

require golang.org/x/tools v0.32.0

require (
	golang.org/x/mod v0.24.0 // indirect
	golang.org/x/sync v0.13.0 // indirect
)
