module verif

go 1.26
