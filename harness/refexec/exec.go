package refexec

import (
	"fmt"
	"sort"
	"strings"

	"github.com/vektah/gqlparser/v2/ast"

	"verifsim/parsers"
)

// Binding describes the Go side of a field position (model parameters measured by reflection on
// the generated Stub and models, never hard-coded).
type Binding struct {
	Resolver    bool // resolver-backed (a universal-resolver call) vs struct-backed
	Nilable     bool // Go result type can be nil
	ElemNilable bool // for lists: element type can be nil
	Directive   bool // field carries @guard
	Stamp       bool // field carries @stamp after (= outside of) @guard
	TypeStamp   bool // the field's named type carries @stamp: gqlgen runs it once more, for every field returning the type
}

// Env is what the reference executor needs.
type Env struct {
	Schema  *ast.Schema
	Plan    *Plan
	Binding func(objType, field string) Binding
	// InFailedGroup (C13 only) says that response key `key` of the object at objPath belongs to a
	// deferred group that was delivered with null data: such a field is null in the merged result
	// and its failure does not propagate to the object.
	InFailedGroup func(objPath, key string) bool
}

// Err is one expected error: the response path and a class. Class is the exact message for
// harness-authored failures ("E:…", "P:…", "D:…", "A:…") and "gqlgen" for errors whose text
// gqlgen authors (non-null violations), which are matched by path only.
type Err struct {
	Path  string
	Class string
}

type Result struct {
	Data     *parsers.J
	Errors   []Err
	Resolved []string // resolver positions invoked
	Fields   []string // every field position executed (field interceptors see exactly these)
	DirCalls []string // directive positions invoked
	// EagerPoints are the positions (incl. list elements) whose value went through an eager
	// marshal FUNCTION (Tag, Tone): fault points for "the marshal function panics"
	EagerPoints []string
	// CtxPoints are the positions whose value is written by a context-aware marshaler (Cx)
	CtxPoints []string
	lazyErrs  []Err
	Panics    int
	Groups    []*Group // deferred groups started (defer-aware mode)
	// GroupViolation[objPath] is set when a field excused by InFailedGroup really violated non-null
	GroupViolation map[string]bool
	// InvalidObjects[objPath]: the object at that path is invalid because one of its OWN direct
	// (non-excused) fields violated non-null
	InvalidObjects map[string]bool
}

// Group is a deferred group as the reference sees it (used by C13).
type Group struct {
	Path  string
	Label string
}

type exec struct {
	env  *Env
	doc  *ast.QueryDocument
	vars map[string]any
	res  *Result
}

// Execute runs operation op of doc against the plan.
func Execute(env *Env, doc *ast.QueryDocument, op *ast.OperationDefinition, vars map[string]any) *Result {
	e := &exec{env: env, doc: doc, vars: vars, res: &Result{}}
	var rootType string
	switch op.Operation {
	case ast.Query:
		rootType = env.Schema.Query.Name
	case ast.Mutation:
		rootType = env.Schema.Mutation.Name
	case ast.Subscription:
		rootType = env.Schema.Subscription.Name
	}
	data, invalid := e.selectionSet(op.SelectionSet, rootType, "", "")
	if invalid {
		data = parsers.NewNull()
	}
	e.res.Data = data
	// a context marshaler runs when the response is WRITTEN: its error exists only if the value
	// is still part of the data that is written (not if an ancestor was nulled meanwhile)
	for _, le := range e.res.lazyErrs {
		if data.At(le.Path) != nil {
			e.res.Errors = append(e.res.Errors, le)
		}
	}
	return e.res
}

// ExecuteEvent evaluates the selection of a subscription's root field against one event whose
// root object sits at path evPath (the harness numbers events: "events@3").
func ExecuteSelection(env *Env, doc *ast.QueryDocument, sel ast.SelectionSet, objType, objID, path string, vars map[string]any) *Result {
	e := &exec{env: env, doc: doc, vars: vars, res: &Result{}}
	data, invalid := e.selectionSet(sel, objType, objID, path)
	if invalid {
		data = parsers.NewNull()
	}
	e.res.Data = data
	return e.res
}

type collected struct {
	key    string
	fields []*ast.Field
}

func (e *exec) include(dirs ast.DirectiveList) bool {
	if d := dirs.ForName("skip"); d != nil {
		if e.boolArg(d) {
			return false
		}
	}
	if d := dirs.ForName("include"); d != nil {
		if !e.boolArg(d) {
			return false
		}
	}
	return true
}

func (e *exec) boolArg(d *ast.Directive) bool {
	a := d.Arguments.ForName("if")
	if a == nil {
		return false
	}
	v, err := a.Value.Value(e.vars)
	if err != nil {
		return false
	}
	b, _ := v.(bool)
	return b
}

func (e *exec) typeApplies(objType, cond string) bool {
	if cond == "" || cond == objType {
		return true
	}
	def := e.env.Schema.Types[cond]
	if def == nil {
		return false
	}
	for _, t := range e.env.Schema.GetPossibleTypes(def) {
		if t.Name == objType {
			return true
		}
	}
	return false
}

func (e *exec) collect(sel ast.SelectionSet, objType string, out *[]*collected, visited map[string]bool) {
	for _, s := range sel {
		switch s := s.(type) {
		case *ast.Field:
			if !e.include(s.Directives) {
				continue
			}
			key := s.Alias
			if key == "" {
				key = s.Name
			}
			found := false
			for _, c := range *out {
				if c.key == key {
					c.fields = append(c.fields, s)
					found = true
				}
			}
			if !found {
				*out = append(*out, &collected{key: key, fields: []*ast.Field{s}})
			}
		case *ast.InlineFragment:
			if !e.include(s.Directives) || !e.typeApplies(objType, s.TypeCondition) {
				continue
			}
			e.collect(s.SelectionSet, objType, out, visited)
		case *ast.FragmentSpread:
			if !e.include(s.Directives) || visited[s.Name] {
				continue
			}
			visited[s.Name] = true
			def := e.doc.Fragments.ForName(s.Name)
			if def == nil || !e.typeApplies(objType, def.TypeCondition) {
				continue
			}
			e.collect(def.SelectionSet, objType, out, visited)
		}
	}
}

func join(path, key string) string {
	if path == "" {
		return key
	}
	return path + "." + key
}

// selectionSet executes sel on an object of type objType identified by objID at path.
func (e *exec) selectionSet(sel ast.SelectionSet, objType, objID, path string) (*parsers.J, bool) {
	var groups []*collected
	e.collect(sel, objType, &groups, map[string]bool{})
	obj := parsers.NewObj()
	invalid := false
	def := e.env.Schema.Types[objType]
	for _, g := range groups {
		f := g.fields[0]
		fpath := join(path, g.key)
		if f.Name == "__typename" {
			obj.Set(g.key, parsers.NewStr(objType))
			continue
		}
		fd := def.Fields.ForName(f.Name)
		if fd == nil {
			panic("refexec: unknown field " + objType + "." + f.Name)
		}
		var merged ast.SelectionSet
		for _, ff := range g.fields {
			merged = append(merged, ff.SelectionSet...)
		}
		var v *parsers.J
		if path == "" && e.env.Plan.RootIcptPanics[g.key] {
			// the root-field interceptor panics before it calls next: nothing of this root runs
			e.res.Panics++
			e.addErr(fpath, "R:panic")
			v = parsers.NewNull()
		} else {
			v = e.field(objType, objID, fd, f, merged, fpath)
		}
		if e.env.InFailedGroup != nil && e.env.InFailedGroup(path, g.key) {
			if v.IsNull() && fd.Type.NonNull {
				if e.res.GroupViolation == nil {
					e.res.GroupViolation = map[string]bool{}
				}
				e.res.GroupViolation[path] = true
			}
			v = parsers.NewNull()
		} else if v.IsNull() && fd.Type.NonNull {
			invalid = true
			if e.res.InvalidObjects == nil {
				e.res.InvalidObjects = map[string]bool{}
			}
			e.res.InvalidObjects[path] = true
		}
		obj.Set(g.key, v)
	}
	return obj, invalid
}

func (e *exec) addErr(path, class string) {
	e.res.Errors = append(e.res.Errors, Err{Path: path, Class: class})
}

// argFault scans argument values for the literals that make the probe's Blob unmarshaler fail.
func (e *exec) argFault(f *ast.Field) string {
	for _, a := range f.Arguments {
		v, err := a.Value.Value(e.vars)
		if err != nil {
			continue
		}
		if s := scan(v); s != "" {
			return s
		}
	}
	return ""
}

func scan(v any) string {
	switch v := v.(type) {
	case string:
		if v == "BLOB_ERR" || v == "BLOB_PANIC" {
			return v
		}
	case map[string]any:
		keys := make([]string, 0, len(v))
		for k := range v {
			keys = append(keys, k)
		}
		sort.Strings(keys)
		for _, k := range keys {
			if s := scan(v[k]); s != "" {
				return s
			}
		}
	case []any:
		for _, x := range v {
			if s := scan(x); s != "" {
				return s
			}
		}
	}
	return ""
}

func (e *exec) field(objType, objID string, fd *ast.FieldDefinition, f *ast.Field, sel ast.SelectionSet, path string) *parsers.J {
	v := e.fieldInner(objType, objID, fd, f, sel, path)
	// the last directive listed is the outermost: @stamp sees whatever @guard and the resolver
	// produced and marks a non-null scalar
	b := e.env.Binding(objType, fd.Name)
	for _, on := range []bool{b.TypeStamp, b.Stamp} {
		if !on || v == nil {
			continue
		}
		switch v.K {
		case parsers.Num:
			var n int64
			fmt.Sscan(v.N, &n)
			v = parsers.NewNum(n + StampInt)
		case parsers.Str:
			v = parsers.NewStr(v.S + StampStr)
		}
	}
	return v
}

func (e *exec) fieldInner(objType, objID string, fd *ast.FieldDefinition, f *ast.Field, sel ast.SelectionSet, path string) *parsers.J {
	b := e.env.Binding(objType, fd.Name)
	p := e.env.Plan
	if !b.Resolver || e.argFault(f) == "" {
		e.res.Fields = append(e.res.Fields, path)
	}
	if !b.Resolver {
		// struct-backed: value is a function of the object, not of the response key
		if p.StructNull(objID, fd.Name, b.Nilable) {
			if fd.Type.NonNull {
				e.addErr(path, "gqlgen")
			}
			return parsers.NewNull()
		}
		return e.complete(fd.Type, sel, objID+"|"+fd.Name, path, b, true)
	}
	if s := e.argFault(f); s != "" {
		if s == "BLOB_PANIC" {
			e.res.Panics++
			e.addErr(path, "A:panic")
		} else {
			e.addErr(path, "A:error")
		}
		return parsers.NewNull()
	}
	if k, ok := p.IcptFaults[path]; ok {
		// the field interceptor fails before it calls next: neither directives nor the resolver run
		if k == KPanic {
			e.res.Panics++
			e.addErr(path, "I:panic")
		} else {
			e.addErr(path, "I:error")
		}
		return parsers.NewNull()
	}
	kind := KValue
	resolve := func() {
		e.res.Resolved = append(e.res.Resolved, path)
		kind = p.Resolver(path, b.Nilable)
	}
	if b.Directive {
		e.res.DirCalls = append(e.res.DirCalls, path)
		switch p.Directive(path) {
		case DPass:
			resolve()
		case DBlock:
			if fd.Type.NonNull {
				e.addErr(path, "gqlgen")
			}
			return parsers.NewNull()
		case DError:
			e.addErr(path, p.DirErrMsg(path))
			return parsers.NewNull()
		case DPanic:
			e.res.Panics++
			e.addErr(path, p.PanicMsg(path+"@guard"))
			return parsers.NewNull()
		case DReplace:
			return parsers.NewNum(ReplaceInt)
		case DPassThenError:
			resolve()
			if kind == KAddErrNull {
				// the resolver recorded its own error, then the directive fails as well
				e.addErr(path, p.ErrMsg(path))
				kind = KNull
			}
			if kind == KValue || kind == KNull {
				e.addErr(path, p.DirErrMsg(path))
				return parsers.NewNull()
			}
		}
	} else {
		resolve()
	}
	switch kind {
	case KError, KAddErrNull:
		if kind == KError && p.SharedErr(path) {
			e.addErr(path, "S:shared")
			return parsers.NewNull()
		}
		e.addErr(path, p.ErrMsg(path))
		return parsers.NewNull()
	case KPanic:
		e.res.Panics++
		e.addErr(path, p.PanicMsg(path))
		return parsers.NewNull()
	case KNull:
		if fd.Type.NonNull {
			e.addErr(path, "gqlgen")
		}
		return parsers.NewNull()
	}
	return e.complete(fd.Type, sel, path, path, b, false)
}

// complete implements CompleteValue for a non-null result produced at valueKey.
func (e *exec) complete(t *ast.Type, sel ast.SelectionSet, valueKey, path string, b Binding, structBacked bool) *parsers.J {
	p := e.env.Plan
	if t.Elem != nil {
		n := p.ListLen(valueKey)
		arr := parsers.NewArr()
		bad := false
		if t.Elem.Elem == nil && t.Elem.NamedType == "Tag" {
			// (P3) elements of a list of SCALARS are not positions of their own in gqlgen: they
			// are marshalled one after the other inside the list's field function, so the first
			// element whose marshal function panics is a panic of the list field
			for i := 0; i < n; i++ {
				if p.ElemNull(valueKey, i, b.ElemNilable) {
					continue
				}
				if p.TagPanics(fmt.Sprintf("%s[%d]", valueKey, i)) {
					e.res.Panics++
					e.addErr(path, "M:panic")
					return parsers.NewNull()
				}
			}
		}
		for i := 0; i < n; i++ {
			ekey := fmt.Sprintf("%s[%d]", valueKey, i)
			epath := fmt.Sprintf("%s[%d]", path, i)
			var v *parsers.J
			if p.ElemNull(valueKey, i, b.ElemNilable) {
				v = parsers.NewNull()
				if t.Elem.NonNull {
					e.addErr(epath, "gqlgen")
				}
			} else {
				v = e.complete(t.Elem, sel, ekey, epath, Binding{}, structBacked)
			}
			if v.IsNull() && t.Elem.NonNull {
				bad = true
			}
			arr.A = append(arr.A, v)
		}
		if bad {
			return parsers.NewNull()
		}
		return arr
	}
	def := e.env.Schema.Types[t.NamedType]
	switch def.Kind {
	case ast.Scalar, ast.Enum:
		if (t.NamedType == "Tag" || t.NamedType == "Tone") && p.TagPanics(valueKey) {
			// the value's marshal function panics while the value is completed: that position
			// is null and reports the recovered panic
			e.res.Panics++
			e.addErr(path, "M:panic")
			return parsers.NewNull()
		}
		if t.NamedType == "Tag" || t.NamedType == "Tone" {
			e.res.EagerPoints = append(e.res.EagerPoints, valueKey)
		}
		if t.NamedType == "Cx" {
			if p.Faults[valueKey] == KCtxMarshalErr {
				// the context marshaler fails before it writes: null, one error at the path
				e.res.lazyErrs = append(e.res.lazyErrs, Err{Path: path, Class: "C:error"})
				return parsers.NewNull()
			}
			e.res.CtxPoints = append(e.res.CtxPoints, valueKey)
		}
		return p.Scalar(valueKey, t.NamedType)
	case ast.Object:
		v, invalid := e.selectionSet(sel, def.Name, valueKey, path)
		if invalid {
			return parsers.NewNull()
		}
		return v
	case ast.Interface, ast.Union:
		var names []string
		for _, pt := range e.env.Schema.GetPossibleTypes(def) {
			names = append(names, pt.Name)
		}
		sort.Strings(names)
		concrete := p.Concrete(valueKey, names)
		v, invalid := e.selectionSet(sel, concrete, valueKey, path)
		if invalid {
			return parsers.NewNull()
		}
		return v
	}
	panic("refexec: unsupported kind " + string(def.Kind))
}

// ErrKey renders an error for multiset comparison.
func (e Err) String() string { return e.Path + " :: " + e.Class }

// SortedErrs returns the errors as a sorted list of strings.
func SortedErrs(errs []Err) []string {
	out := make([]string, len(errs))
	for i, e := range errs {
		out[i] = e.String()
	}
	sort.Strings(out)
	return out
}

// ClassOf maps a message from a real response to the class used by the model.
func ClassOf(msg string) string {
	switch {
	case strings.HasPrefix(msg, "E:"), strings.HasPrefix(msg, "D:"), strings.HasPrefix(msg, "P:"), strings.HasPrefix(msg, "A:"), strings.HasPrefix(msg, "M:"), strings.HasPrefix(msg, "O:"), strings.HasPrefix(msg, "I:"), strings.HasPrefix(msg, "R:"), strings.HasPrefix(msg, "C:"), strings.HasPrefix(msg, "S:"):
		return msg
	case strings.HasPrefix(msg, "recovered:"):
		return strings.TrimPrefix(msg, "recovered:")
	}
	return "gqlgen"
}
