// Package refexec is the reference model: a plan (pure function from response path to resolver
// outcome) and a small GraphQL executor following the specification's algorithms. It imports
// nothing from gqlgen.
package refexec

import (
	"fmt"
	"hash/fnv"

	"verifsim/parsers"
)

type Kind int

const (
	KValue Kind = iota
	KNull
	KError
	KPanic
	KMarshalPanic // the value is produced, but serialising it panics (custom scalar only)
	KAddErrNull   // the resolver records an error with graphql.AddError and returns nil, nil
	// context-aware marshaler (scalar Cx) that returns an error: before writing anything
	// (the value is null, one error at its path) / after writing half of its output (the
	// response as a whole cannot be serialised)
	KCtxMarshalErr
	KCtxMarshalPartial
)

func (k Kind) String() string {
	return [...]string{"value", "null", "error", "panic", "marshal-panic", "adderror-null", "ctx-marshal-error", "ctx-marshal-partial"}[k]
}

// DirKind is what the @guard directive does at a position.
type DirKind int

const (
	DPass DirKind = iota
	DBlock
	DError
	DPanic
	DReplace
	DPassThenError // calls next, then returns an error
)

// Plan decides the outcome of every resolver / directive / struct-field position as a pure
// function of (Seed, path). Faults is an explicit overlay chosen by the tape.
type Plan struct {
	Seed uint64
	// per-mille rates of background outcomes
	NullPM, ErrPM, DirPM int
	PanicPM              int  // background rate of panicking resolvers (used by the websocket scenario)
	SharedErrors         bool // some failing resolvers return one shared error value (class S:shared)
	TagPanicPM           int  // background rate of Tag values whose eager marshal function panics
	// IcptFaults: the field interceptor (AroundFields) fails at this resolver-backed position
	// before it calls next (KError or KPanic); RootIcptPanics: the root-field interceptor
	// (AroundRootFields) panics at this root response key before it calls next
	IcptFaults     map[string]Kind
	RootIcptPanics map[string]bool
	MaxList        int
	Faults         map[string]Kind    // resolver path -> KError | KPanic | KNull
	DirFaults      map[string]DirKind // field path -> directive behaviour
	// IgnoreCancel: resolvers do not look at ctx (C05 premise variants)
}

func h64(seed uint64, key string) uint64 {
	h := fnv.New64a()
	fmt.Fprintf(h, "%d|%s", seed, key)
	x := h.Sum64()
	x += 0x9e3779b97f4a7c15
	x = (x ^ (x >> 30)) * 0xbf58476d1ce4e5b9
	x = (x ^ (x >> 27)) * 0x94d049bb133111eb
	return x ^ (x >> 31)
}

// Resolver returns the outcome of the resolver call at path. nilable says whether the Go result
// type can express null (model parameter P1).
func (p *Plan) Resolver(path string, nilable bool) Kind {
	if k, ok := p.Faults[path]; ok {
		if (k == KNull || k == KAddErrNull) && !nilable {
			return KValue
		}
		if k == KMarshalPanic || k == KCtxMarshalErr || k == KCtxMarshalPartial {
			return KValue
		}
		return k
	}
	r := int(h64(p.Seed, "r|"+path) % 1000)
	if r < p.ErrPM {
		// a third of the failing nilable positions report their error through graphql.AddError
		// and return nil, nil instead of returning the error
		if nilable && h64(p.Seed, "ae|"+path)%3 == 0 {
			return KAddErrNull
		}
		return KError
	}
	if nilable && r < p.ErrPM+p.NullPM {
		return KNull
	}
	if p.PanicPM > 0 && int(h64(p.Seed, "p|"+path)%1000) < p.PanicPM {
		return KPanic
	}
	return KValue
}

func (p *Plan) ErrMsg(path string) string   { return "E:" + path }
func (p *Plan) PanicMsg(path string) string { return "P:" + path }
func (p *Plan) DirErrMsg(path string) string {
	return "D:" + path
}

func (p *Plan) Directive(path string) DirKind {
	if k, ok := p.DirFaults[path]; ok {
		return k
	}
	r := int(h64(p.Seed, "d|"+path) % 1000)
	if r < p.DirPM {
		return []DirKind{DBlock, DError, DReplace, DPassThenError}[h64(p.Seed, "dk|"+path)%4]
	}
	return DPass
}

func (p *Plan) ListLen(path string) int {
	m := p.MaxList
	if m <= 0 {
		m = 3
	}
	return int(h64(p.Seed, "l|"+path) % uint64(m+1))
}

// ElemNull says whether element idx of the list at path is a nil element.
func (p *Plan) ElemNull(path string, idx int, nilable bool) bool {
	if !nilable {
		return false
	}
	key := fmt.Sprintf("%s[%d]", path, idx)
	if k, ok := p.Faults[key]; ok {
		return k == KNull
	}
	return int(h64(p.Seed, "e|"+key)%1000) < p.NullPM
}

// Concrete picks the concrete object type for an abstract position.
func (p *Plan) Concrete(path string, possible []string) string {
	return possible[h64(p.Seed, "c|"+path)%uint64(len(possible))]
}

// StructNull says whether a struct-backed nullable field of object objID is null.
func (p *Plan) StructNull(objID, field string, nilable bool) bool {
	if !nilable {
		return false
	}
	return int(h64(p.Seed, "s|"+objID+"|"+field)%1000) < p.NullPM+50
}

// Scalar returns the JSON value of a scalar leaf. key identifies the position (response path for
// resolver results, objID|field for struct-backed fields).
func (p *Plan) Scalar(key, typeName string) *parsers.J {
	x := h64(p.Seed, "v|"+key)
	switch typeName {
	case "Int":
		return parsers.NewNum(int64(x % 1000))
	case "Float":
		return parsers.NewNum(int64(x % 1000))
	case "Boolean":
		return parsers.NewBool(x%2 == 0)
	case "ID":
		return parsers.NewStr(fmt.Sprintf("id-%s", key))
	case "Cx":
		switch p.Faults[key] {
		case KCtxMarshalErr:
			return parsers.NewStr("CTXM_ERR-" + key)
		case KCtxMarshalPartial:
			return parsers.NewStr("CTXM_PARTIAL-" + key)
		}
		return parsers.NewStr(fmt.Sprintf("cx-%s-%d", key, x%97))
	case "Tone":
		if p.TagPanics(key) {
			return parsers.NewStr("MARSHAL_PANIC-" + key)
		}
		return parsers.NewStr([]string{"LOW", "MID", "HIGH"}[x%3])
	case "Tag":
		if p.TagPanics(key) {
			return parsers.NewStr("MARSHAL_PANIC-" + key)
		}
		return parsers.NewStr(fmt.Sprintf("tag-%s-%d", key, x%97))
	case "Blob":
		if p.Faults[key] == KMarshalPanic {
			return parsers.NewStr("MARSHAL_PANIC-" + key)
		}
		if x%5 == 0 {
			// marshalled with a trailing line feed (legal JSON white space)
			return parsers.NewStr(fmt.Sprintf("blob-%s-%d~nl", key, x%97))
		}
		return parsers.NewStr(fmt.Sprintf("blob-%s-%d", key, x%97))
	default:
		return parsers.NewStr(fmt.Sprintf("%s-%d", key, x%97))
	}
}

// SharedErr says whether the failing resolver at path returns the error value that it shares with
// other positions (only consulted by servers that enable shared errors).
func (p *Plan) SharedErr(path string) bool { return p.SharedErrors && h64(p.Seed, "se|"+path)%2 == 0 }

// TypedNil says whether a null outcome at an interface-typed position is delivered as a typed nil
// pointer instead of a nil interface.
func (p *Plan) TypedNil(path string) bool { return h64(p.Seed, "tn|"+path)%2 == 0 }

// TagPanics says whether the eager marshal function of the Tag value at key panics.
func (p *Plan) TagPanics(key string) bool {
	if p.Faults[key] == KMarshalPanic {
		return true
	}
	return p.TagPanicPM > 0 && int(h64(p.Seed, "tp|"+key)%1000) < p.TagPanicPM
}

// ReplaceInt is the value a DReplace directive returns.
const ReplaceInt = 777

// StampInt / StampStr are what the @stamp directive adds to the value produced inside it.
const StampInt = 1000
const StampStr = "~"
