package ops

import (
	"github.com/vektah/gqlparser/v2/ast"
	"github.com/vektah/gqlparser/v2/gqlerror"
	"github.com/vektah/gqlparser/v2/validator"
	"github.com/vektah/gqlparser/v2/validator/rules"
)

// SpecRules is the complete GraphQL validation rule set, listed explicitly. The harness validates
// with this list and never with gqlparser's process-global one, which gqlgen rewrites when
// suggestions are disabled: the harness's verdict on a document must not depend on what a server
// did earlier in the same process.
var SpecRules = []validator.Rule{
	rules.FieldsOnCorrectTypeRule, rules.FragmentsOnCompositeTypesRule, rules.KnownArgumentNamesRule,
	rules.KnownDirectivesRule, rules.KnownFragmentNamesRule, rules.KnownRootTypeRule, rules.KnownTypeNamesRule,
	rules.LoneAnonymousOperationRule, rules.MaxIntrospectionDepth, rules.NoFragmentCyclesRule,
	rules.NoUndefinedVariablesRule, rules.NoUnusedFragmentsRule, rules.NoUnusedVariablesRule,
	rules.OverlappingFieldsCanBeMergedRule, rules.PossibleFragmentSpreadsRule, rules.ProvidedRequiredArgumentsRule,
	rules.ScalarLeafsRule, rules.SingleFieldSubscriptionsRule, rules.UniqueArgumentNamesRule,
	rules.UniqueDirectivesPerLocationRule, rules.UniqueFragmentNamesRule, rules.UniqueInputFieldNamesRule,
	rules.UniqueOperationNamesRule, rules.UniqueVariableNamesRule, rules.ValuesOfCorrectTypeRule,
	rules.VariablesAreInputTypesRule, rules.VariablesInAllowedPositionRule,
}

// Validate validates doc against schema with the explicit rule set.
func Validate(schema *ast.Schema, doc *ast.QueryDocument) gqlerror.List {
	return validator.Validate(schema, doc, SpecRules...)
}
