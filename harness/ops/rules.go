package ops

import (
	"github.com/vektah/gqlparser/v2/ast"
	"github.com/vektah/gqlparser/v2/gqlerror"
	"github.com/vektah/gqlparser/v2/validator"
	"github.com/vektah/gqlparser/v2/validator/rules"
)

// SpecRules is the complete GraphQL validation rule set, listed explicitly. The harness validates
// with this list and never with gqlparser's process-global one, which gqlgen rewrites when
// suggestions are disabled: the harness's verdict on a document must not depend on what a server
// did earlier in the same process.
var SpecRules = []validator.Rule{
	rules.FieldsOnCorrectTypeRule, rules.FragmentsOnCompositeTypesRule, rules.KnownArgumentNamesRule,
	rules.KnownDirectivesRule, rules.KnownFragmentNamesRule, rules.KnownRootTypeRule, rules.KnownTypeNamesRule,
	rules.LoneAnonymousOperationRule, rules.MaxIntrospectionDepth, rules.NoFragmentCyclesRule,
	rules.NoUndefinedVariablesRule, rules.NoUnusedFragmentsRule, rules.NoUnusedVariablesRule,
	rules.OverlappingFieldsCanBeMergedRule, rules.PossibleFragmentSpreadsRule, rules.ProvidedRequiredArgumentsRule,
	rules.ScalarLeafsRule, rules.SingleFieldSubscriptionsRule, rules.UniqueArgumentNamesRule,
	rules.UniqueDirectivesPerLocationRule, rules.UniqueFragmentNamesRule, rules.UniqueInputFieldNamesRule,
	rules.UniqueOperationNamesRule, rules.UniqueVariableNamesRule, rules.ValuesOfCorrectTypeRule,
	rules.VariablesAreInputTypesRule, rules.VariablesInAllowedPositionRule,
}

// Validate validates doc against schema with the explicit rule set.
func Validate(schema *ast.Schema, doc *ast.QueryDocument) gqlerror.List {
	return validator.Validate(schema, doc, SpecRules...)
}

// MergeConflict is the harness's own reading of the spec's FieldsInSetCanMerge, applied after
// Validate to every generated document. gqlparser's OverlappingFieldsCanBeMergedRule, which gqlgen
// relies on, lets some conflicting documents through (seen: a field `x:owner` next to `...F2`,
// where F2 spreads F1, F1 selects `x:id`, and F1 is also spread inside the `x:owner` selection):
// such a document is not a valid operation, no property quantifies over it, and what gqlgen
// answers to it (both fields, under the same response key) is not a verdict on gqlgen. The check
// is a little stricter than the spec: fields with the same response key must have the same name
// and arguments unless both parents are different object types, and the sub-selections of all
// fields with one response key must merge, exclusive parents or not. It returns "" or the
// conflicting response key. The document must have been validated (parent types are read from
// Field.ObjectDefinition).
func MergeConflict(doc *ast.QueryDocument) string {
	for _, op := range doc.Operations {
		if k := mergeConflictIn(doc, []ast.SelectionSet{op.SelectionSet}, 0); k != "" {
			return k
		}
	}
	return ""
}

func mergeConflictIn(doc *ast.QueryDocument, sets []ast.SelectionSet, depth int) string {
	if depth > 12 {
		return ""
	}
	var keys []string
	byKey := map[string][]*ast.Field{}
	seen := map[string]bool{}
	var collect func(ss ast.SelectionSet)
	collect = func(ss ast.SelectionSet) {
		for _, sel := range ss {
			switch sel := sel.(type) {
			case *ast.Field:
				k := sel.Alias
				if k == "" {
					k = sel.Name
				}
				if _, ok := byKey[k]; !ok {
					keys = append(keys, k)
				}
				byKey[k] = append(byKey[k], sel)
			case *ast.InlineFragment:
				collect(sel.SelectionSet)
			case *ast.FragmentSpread:
				if seen[sel.Name] {
					continue
				}
				seen[sel.Name] = true
				if def := doc.Fragments.ForName(sel.Name); def != nil {
					collect(def.SelectionSet)
				}
			}
		}
	}
	for _, ss := range sets {
		collect(ss)
	}
	argsOf := func(f *ast.Field) string {
		s := ""
		for _, a := range f.Arguments {
			s += a.Name + ":" + a.Value.String() + ","
		}
		return s
	}
	for _, k := range keys {
		group := byKey[k]
		var subs []ast.SelectionSet
		for i, f := range group {
			if len(f.SelectionSet) > 0 {
				subs = append(subs, f.SelectionSet)
			}
			for _, g := range group[:i] {
				exclusive := f.ObjectDefinition != nil && g.ObjectDefinition != nil &&
					f.ObjectDefinition.Kind == ast.Object && g.ObjectDefinition.Kind == ast.Object &&
					f.ObjectDefinition.Name != g.ObjectDefinition.Name
				if !exclusive && (f.Name != g.Name || argsOf(f) != argsOf(g)) {
					return k
				}
			}
		}
		if len(subs) > 0 {
			if c := mergeConflictIn(doc, subs, depth+1); c != "" {
				return c
			}
		}
	}
	return ""
}
