package ops

import (
	"fmt"
	"strings"

	"github.com/vektah/gqlparser/v2/ast"
	"github.com/vektah/gqlparser/v2/parser"

	"verifsim/core"
)

// GenOpts controls the generator.
type GenOpts struct {
	Depth    int
	Defer    bool // allow @defer on fragments
	Mutation bool
}

type gen struct {
	s      *ast.Schema
	t      *core.Tape
	o      GenOpts
	frags  []string
	nfrag  int
	useVar map[string]bool
	labels int
	// fragments that may be spread again, and their type conditions
	fragNames []string
	fragOn    map[string]string
}

var aliasPool = []string{"a", "b", "c", "x"}

func (g *gen) args(fd *ast.FieldDefinition) string {
	var parts []string
	for _, a := range fd.Arguments {
		required := a.Type.NonNull && a.DefaultValue == nil
		if !required && !g.t.Bool(1, 3, "arg?") {
			continue
		}
		parts = append(parts, a.Name+":"+g.argValue(a.Type))
	}
	if len(parts) == 0 {
		return ""
	}
	return "(" + strings.Join(parts, ",") + ")"
}

func (g *gen) argValue(t *ast.Type) string {
	if t.Elem != nil {
		return "[" + g.argValue(t.Elem) + "]"
	}
	switch t.NamedType {
	case "ID":
		return fmt.Sprintf("%q", fmt.Sprint(g.t.Choose(3, "id")))
	case "Int":
		return fmt.Sprint(g.t.Choose(4, "int"))
	case "String":
		return `"s"`
	case "Boolean":
		return "true"
	case "Blob":
		return `"bl"`
	case "Filter":
		if g.t.Bool(1, 2, "filter") {
			return `{q:"q",limit:1}`
		}
		return `{tags:["a","b"],nested:{q:"n"}}`
	}
	return "null"
}

func (g *gen) cond() string {
	// variants with an executable directive: put it on some fields (it passes the value on)
	if g.s.Directives["trace"] != nil && g.t.Bool(1, 6, "trace?") {
		return " @trace"
	}
	switch g.t.Choose(9, "cond") {
	case 8:
		// both directives on one selection: it is included only if @skip says false AND
		// @include says true
		sk := []string{"true", "false", "$t", "$f"}[g.t.Choose(4, "skip-if")]
		in := []string{"true", "false", "$t", "$f"}[g.t.Choose(4, "include-if")]
		for _, x := range []string{sk, in} {
			if x == "$t" {
				g.useVar["t"] = true
			}
			if x == "$f" {
				g.useVar["f"] = true
			}
		}
		if g.t.Bool(1, 2, "include-first") {
			return " @include(if:" + in + ") @skip(if:" + sk + ")"
		}
		return " @skip(if:" + sk + ") @include(if:" + in + ")"
	case 1:
		return " @include(if:true)"
	case 2:
		return " @skip(if:false)"
	case 3:
		return " @skip(if:true)"
	case 4:
		g.useVar["t"] = true
		return " @include(if:$t)"
	case 5:
		g.useVar["f"] = true
		return " @skip(if:$f)"
	case 6:
		g.useVar["f"] = true
		return " @include(if:$f)"
	}
	return ""
}

func (g *gen) deferDir() string {
	if !g.o.Defer || !g.t.Bool(1, 2, "defer?") {
		return ""
	}
	switch g.t.Choose(7, "deferkind") {
	case 6:
		// a NULLABLE variable, sent as null or not at all (the prelude declares if: Boolean)
		g.useVar["n"] = true
		return " @defer(if:$n)"
	case 0:
		return " @defer"
	case 1:
		g.labels++
		return fmt.Sprintf(" @defer(label:\"L%d\")", g.labels)
	case 2:
		return ` @defer(label:"S")`
	case 3:
		return " @defer(if:false)"
	case 4:
		g.useVar["t"] = true
		g.labels++
		return fmt.Sprintf(" @defer(if:$t,label:\"L%d\")", g.labels)
	default:
		g.useVar["f"] = true
		return " @defer(if:$f)"
	}
}

// typeConds returns the type conditions applicable inside a selection on def.
func (g *gen) typeConds(def *ast.Definition) []string {
	out := []string{def.Name}
	switch def.Kind {
	case ast.Object:
		out = append(out, def.Interfaces...)
		for _, t := range g.s.Types {
			if t.Kind == ast.Union {
				for _, m := range t.Types {
					if m == def.Name {
						out = append(out, t.Name)
					}
				}
			}
		}
	case ast.Interface, ast.Union:
		for _, pt := range g.s.GetPossibleTypes(def) {
			out = append(out, pt.Name)
		}
	}
	// canonical order
	for i := 1; i < len(out); i++ {
		for j := i; j > 1 && out[j] < out[j-1]; j-- {
			out[j], out[j-1] = out[j-1], out[j]
		}
	}
	return out
}

func (g *gen) selection(def *ast.Definition, depth int, root bool) string {
	var sb strings.Builder
	sb.WriteString("{")
	n := 1 + g.t.Choose(4, "nsel")
	wrote := 0
	for i := 0; i < n; i++ {
		kind := g.t.Choose(10, "selkind")
		switch {
		case kind == 0:
			sb.WriteString(" __typename")
			wrote++
		case kind <= 6 || depth <= 0:
			if def.Kind == ast.Union {
				sb.WriteString(" __typename")
				wrote++
				continue
			}
			var cands []*ast.FieldDefinition
			for _, f := range def.Fields {
				if strings.HasPrefix(f.Name, "__") {
					continue
				}
				ft := g.s.Types[f.Type.Name()]
				composite := ft.Kind == ast.Object || ft.Kind == ast.Interface || ft.Kind == ast.Union
				if composite && depth <= 0 {
					continue
				}
				upload := false
				for _, a := range f.Arguments {
					if n := a.Type.Name(); n == "Upload" || n == "UpIn" {
						upload = true // upload fields belong to the wire-fault scenario only
					}
				}
				if !upload {
					cands = append(cands, f)
				}
			}
			if len(cands) == 0 {
				sb.WriteString(" __typename")
				wrote++
				continue
			}
			f := cands[g.t.Choose(len(cands), "field")]
			sb.WriteString(" ")
			if g.t.Bool(1, 4, "alias?") {
				sb.WriteString(aliasPool[g.t.Choose(len(aliasPool), "alias")] + ":")
			}
			sb.WriteString(f.Name)
			sb.WriteString(g.args(f))
			sb.WriteString(g.cond())
			ft := g.s.Types[f.Type.Name()]
			if ft.Kind == ast.Object || ft.Kind == ast.Interface || ft.Kind == ast.Union {
				sb.WriteString(" ")
				sb.WriteString(g.selection(ft, depth-1, false))
			}
			wrote++
		case kind <= 8:
			conds := g.typeConds(def)
			c := conds[g.t.Choose(len(conds), "tcond")]
			cd := g.s.Types[c]
			sb.WriteString(" ...")
			if !(c == def.Name && g.t.Bool(1, 2, "barefrag")) {
				sb.WriteString(" on " + c)
			}
			sb.WriteString(g.cond())
			if !root {
				sb.WriteString(g.deferDir())
			} else if g.o.Mutation && g.t.Bool(1, 4, "root-defer") {
				// @defer on a fragment of the mutation root: legal, and without effect there
				// (root fields of a mutation run one after the other, in document order)
				sb.WriteString(" @defer")
			}
			sb.WriteString(" ")
			sb.WriteString(g.selection(cd, depth-1, root && c == def.Name))
			wrote++
		default:
			// now and then spread a fragment that exists already (same name, other directives)
			if len(g.fragOn) > 0 && g.t.Bool(1, 3, "respread") {
				var fit []string
				conds := g.typeConds(def)
				for _, name := range g.fragNames {
					for _, c := range conds {
						if g.fragOn[name] == c {
							fit = append(fit, name)
						}
					}
				}
				if len(fit) > 0 {
					sb.WriteString(" ..." + fit[g.t.Choose(len(fit), "which-frag")])
					sb.WriteString(g.cond())
					wrote++
					continue
				}
			}
			conds := g.typeConds(def)
			c := conds[g.t.Choose(len(conds), "tcond")]
			cd := g.s.Types[c]
			g.nfrag++
			name := fmt.Sprintf("F%d", g.nfrag)
			body := g.selection(cd, depth-1, root && c == def.Name)
			g.frags = append(g.frags, fmt.Sprintf("fragment %s on %s %s", name, c, body))
			if !strings.Contains(body, "@defer") && !root {
				// (fragments with deferred parts are spread once: a second spread would make one
				// group deliver the same fields twice, which is C13's subject, not collection's)
				g.fragNames = append(g.fragNames, name)
				g.fragOn[name] = c
			}
			sb.WriteString(" ..." + name)
			sb.WriteString(g.cond())
			if !root {
				sb.WriteString(g.deferDir())
			} else if g.o.Mutation && g.t.Bool(1, 4, "root-defer") {
				sb.WriteString(" @defer")
			}
			wrote++
		}
	}
	if wrote == 0 {
		sb.WriteString(" __typename")
	}
	sb.WriteString(" }")
	return sb.String()
}

// Generate produces a valid operation; it retries with fresh draws when validation rejects the
// candidate and reports how many candidates were discarded. ok=false means none was found.
func Generate(s *ast.Schema, t *core.Tape, o GenOpts) (op Op, discarded int, ok bool) {
	for try := 0; try < 6; try++ {
		g := &gen{s: s, t: t, o: o, useVar: map[string]bool{}, fragOn: map[string]string{}}
		root := s.Query
		kw := "query"
		if o.Mutation {
			root, kw = s.Mutation, "mutation"
		}
		body := g.selection(root, o.Depth, true)
		var vars []string
		vmap := map[string]any{}
		if g.useVar["t"] {
			vars = append(vars, "$t:Boolean!")
			vmap["t"] = true
		}
		if g.useVar["f"] {
			vars = append(vars, "$f:Boolean!")
			vmap["f"] = false
		}
		if g.useVar["n"] {
			vars = append(vars, "$n:Boolean")
			if t.Bool(1, 2, "null-or-absent") {
				vmap["n"] = nil
			}
		}
		q := kw
		if len(vars) > 0 {
			q += "(" + strings.Join(vars, ",") + ")"
		}
		q += " " + body
		for _, f := range g.frags {
			q += " " + f
		}
		doc, err := parser.ParseQuery(&ast.Source{Input: q})
		if err != nil {
			discarded++
			continue
		}
		if errs := Validate(s, doc); len(errs) > 0 {
			discarded++
			continue
		}
		if MergeConflict(doc) != "" {
			discarded++
			continue
		}
		return Op{Name: "gen", Query: q, Vars: vmap}, discarded, true
	}
	return Op{}, discarded, false
}
