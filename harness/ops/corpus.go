// Package ops holds the operation corpus and the grammar-based operation generator for the
// `core` probe schema.
package ops

// Op is one operation with variables.
type Op struct {
	Name  string
	Query string
	Vars  map[string]any
	// OpName selects the operation when the document has several.
	OpName string
}

// Corpus covers each mechanism named by the properties at least once.
var Corpus = []Op{
	{Name: "scalars", Query: `{ hello maybe }`},
	{Name: "typename-root", Query: `{ __typename hello }`},
	{Name: "user-basic", Query: `{ user(id:"1") { id plain plainReq name nick } }`},
	{Name: "me-nonnull", Query: `{ me { id name boss { id name } } }`},
	{Name: "users-list", Query: `{ users { id name nick } }`},
	{Name: "users-nested-lists", Query: `{ users { id friends { id name } pals { id } crew { id name } maybes { id nick } } }`},
	{Name: "deep", Query: `{ me { best { best { boss { name rank } } } } }`},
	{Name: "alias-same-field", Query: `{ a: hello b: hello me { x: name y: name z: plain w: plain } }`},
	{Name: "alias-objects", Query: `{ u1: user(id:"1") { name } u2: user(id:"2") { name nick } }`},
	{Name: "node-iface", Query: `{ node(id:"n") { __typename id ... on User { name } ... on Post { title } } }`},
	{Name: "items-union", Query: `{ items { __typename ... on User { id name } ... on Post { id title author { name } } } }`},
	{Name: "search-union-nullable", Query: `{ search(f:{q:"a", tags:["t"]}) { __typename ... on Node { id } ... on Post { related { __typename id } } } }`},
	{Name: "frag-spread", Query: `query { users { ...UF } } fragment UF on User { id name best { ...BF } } fragment BF on User { id nick }`},
	{Name: "frag-iface-cond", Query: `{ me { ... on Node { id } ...NF } } fragment NF on Node { id ... on User { name } }`},
	{Name: "frag-merge-order", Query: `{ me { name ...A id ...B } } fragment A on User { nick id } fragment B on User { name plain }`},
	{Name: "merge-subselections", Query: `{ me { best { id } best { name } ... on User { best { nick } } } }`},
	{Name: "skip-include-lit", Query: `{ hello @skip(if:true) maybe @include(if:true) me @include(if:false) { id } users @skip(if:false) { id } }`},
	{Name: "skip-include-var", Query: `query($s:Boolean!,$i:Boolean!){ hello @skip(if:$s) maybe @include(if:$i) me { id @skip(if:$s) name @include(if:$i) @skip(if:$s) } }`, Vars: map[string]any{"s": true, "i": true}},
	{Name: "skip-include-var2", Query: `query($s:Boolean!,$i:Boolean!){ hello @skip(if:$s) maybe @include(if:$i) me { id @skip(if:$s) name @include(if:$i) @skip(if:$s) ... @include(if:$i) { nick } } }`, Vars: map[string]any{"s": false, "i": true}},
	{Name: "skip-fragment", Query: `query($s:Boolean!){ me { ...F @skip(if:$s) ... on User @include(if:$s) { nick } id } } fragment F on User { name }`, Vars: map[string]any{"s": false}},
	{Name: "directive-fields", Query: `{ users { id score rank } }`},
	{Name: "directive-nonnull-nested", Query: `{ me { best { rank score } boss { rank } } }`},
	{Name: "posts-args", Query: `{ me { posts(first: 3) { id title author { id name } related { __typename id } } } }`},
	{Name: "posts-default-arg", Query: `{ users { posts { id title } } }`},
	{Name: "blob", Query: `{ me { blob } echo(b:"zz") }`},
	{Name: "blob-input", Query: `{ search(f:{blob:"ok", nested:{blob:"ok2"}}) { __typename } }`},
	{Name: "typename-everywhere", Query: `{ __typename me { __typename best { __typename } posts { __typename author { __typename } } } items { __typename } }`},
	{Name: "nonnull-chain", Query: `{ me { boss { boss { boss { name } } } } }`},
	{Name: "list-shapes", Query: `{ me { friends { rank } pals { rank } crew { rank } maybes { rank } } }`},
	{Name: "wide", Query: `{ hello maybe me { id name nick best { id } boss { id } } users { id } items { __typename } node(id:"x") { id } }`},
	{Name: "merge-across-type-conditions", Query: `{ me { posts { related { owner { id name nick } ... on User { owner { plain } } ... on Post { owner { plainReq } } } } } }`},
	{Name: "merge-across-type-conditions-union", Query: `{ items { ... on Node { owner { id name nick } } ... on User { owner { plain } } ... on Post { owner { t: plainReq } } } }`},
	{Name: "merge-across-type-conditions-5", Query: `{ search { __typename ... on Node { owner { a: id b: name c: nick d: plain e: id } } ... on User { owner { rank } } ... on Post { owner { score } } } }`},
	{Name: "merge-across-type-conditions-list", Query: `{ users { friends { id } } node(id:"1") { owner { id name nick } ... on User { owner { plain } } ... on Post { owner { plainReq } } } items { ... on Entity { id } } }`},
	{Name: "scalar-lists", Query: `{ me { blobs blobsReq } users { blobs } }`},
	{Name: "scalar-lists-nonnull-parent", Query: `{ me { boss { blobsReq } best { blobsReq blobs } } }`},
	{Name: "method-backed", Query: `{ me { gauge { low high note } } users { gauge { id low high } } }`},
	{Name: "shared-input-variable", Query: `query($f: Filter){ a: search(f:$f) { __typename } b: search(f:$f) { __typename } c: search(f:$f) { __typename } }`, Vars: map[string]any{"f": map[string]any{"limit": 1}}},
	{Name: "context-marshaler", Query: `{ me { cx best { cx } } users { cx id } }`},
	{Name: "eager-marshal-lists", Query: `{ me { tone tones tonesReq tag tags } users { tonesReq tagsReq } }`},
	{Name: "op-directive-pass", Query: `query @opguard(mode:"pass") { hello me { id } }`},
	{Name: "multi-op", Query: `query A { hello } query B { maybe me { name } }`, OpName: "B"},
	{Name: "mutation-serial", Query: `mutation { a: inc(by:1) b: setName(id:"1", name:"x") { id name best { name } } c: inc(by:2) }`},
	{Name: "mutation-boom", Query: `mutation { inc(by:1) boom { id name friends { name } } }`},
	{Name: "mutation-sub", Query: `mutation { setName(id:"1", name:"n") { friends { name best { nick } } crew { name } } inc(by: 5) }`},
	{Name: "mutation-frag", Query: `mutation { ...M x: inc(by:3) } fragment M on Mutation { setName(id:"2", name:"m") { name } }`},
}

// DeferCorpus are operations with @defer (C13, C05, C12).
var DeferCorpus = []Op{
	{Name: "defer-single", Query: `{ me { id ... @defer { name } } }`},
	{Name: "defer-label", Query: `{ me { id ... @defer(label:"L") { name nick } } }`},
	{Name: "defer-two-labels", Query: `{ me { id ... @defer(label:"a") { name } ... @defer(label:"b") { nick } } }`},
	{Name: "defer-shared-label", Query: `{ me { id ... @defer(label:"a") { name } ... @defer(label:"a") { nick } } }`},
	{Name: "defer-list", Query: `{ users { id ... @defer { name } } }`},
	{Name: "defer-list-label", Query: `{ users { id ... @defer(label:"u") { name rank } } }`},
	{Name: "defer-nested", Query: `{ users { id ... @defer(label:"o") { best { id ... @defer(label:"i") { name } } } } }`},
	{Name: "defer-nested-sibling", Query: `{ users { id ... @defer(label:"o") { nick best { id ... @defer(label:"i") { name } } } } }`},
	{Name: "defer-nested-sibling-me", Query: `{ me { id ... @defer(label:"o") { name boss { id ... @defer(label:"i") { nick } } friends { id } } } }`},
	{Name: "defer-nested-me", Query: `{ me { id ... @defer { boss { id ... @defer { nick } } } } }`},
	{Name: "defer-if-false", Query: `{ me { id ... @defer(if:false) { name } } }`},
	{Name: "defer-if-var", Query: `query($d:Boolean!){ me { id ... @defer(if:$d, label:"v") { name } } }`, Vars: map[string]any{"d": true}},
	{Name: "defer-if-var-false", Query: `query($d:Boolean!){ me { id ... @defer(if:$d, label:"v") { name } } }`, Vars: map[string]any{"d": false}},
	{Name: "defer-spread", Query: `{ me { id ...F @defer(label:"f") } } fragment F on User { name friends { id } }`},
	{Name: "defer-nonnull", Query: `{ me { id ... @defer { rank boss { name } } } }`},
	{Name: "defer-objects", Query: `{ me { id ... @defer { best { name } posts { title } } } }`},
	{Name: "defer-root", Query: `{ hello ... @defer { maybe } }`},
	{Name: "defer-typed", Query: `{ node(id:"1") { id ... on User @defer(label:"t") { name } } }`},
	{Name: "defer-mixed", Query: `{ me { name ... @defer { name nick } } users { ... @defer(label:"x") { nick } id } }`},
}

// SubCorpus are subscription operations.
var SubCorpus = []Op{
	{Name: "sub-ticks", Query: `subscription { ticks(n: 3) }`},
	{Name: "sub-events", Query: `subscription { events { id title author { name } } }`},
	{Name: "sub-events-alias", Query: `subscription { e: events { id related { __typename id } } }`},
}

// FaultArgCorpus are operations whose argument coercion fails in the probe's custom scalar.
var FaultArgCorpus = []Op{
	{Name: "arg-err", Query: `{ echo(b:"BLOB_ERR") hello }`},
	{Name: "arg-panic", Query: `{ hello echo(b:"BLOB_PANIC") me { name } }`},
	{Name: "arg-nested-err", Query: `{ search(f:{nested:{blob:"BLOB_ERR"}}) { __typename } maybe }`},
	{Name: "arg-nested-panic", Query: `{ search(f:{blob:"BLOB_PANIC"}) { __typename } users { id } }`},
	{Name: "arg-var-err", Query: `query($b: Blob!){ echo(b:$b) hello }`, Vars: map[string]any{"b": "BLOB_ERR"}},
	{Name: "arg-var-panic", Query: `query($f: Filter){ search(f:$f) { __typename } hello }`, Vars: map[string]any{"f": map[string]any{"blob": "BLOB_PANIC"}}},
	{Name: "arg-required-input-err", Query: `{ find(f:{nested:{blob:"BLOB_ERR"}}) { __typename } maybe }`},
	{Name: "arg-required-input-err2", Query: `{ a: find(f:{q:"ok"}) { __typename } b: find(f:{blob:"BLOB_ERR"}) { __typename } hello }`},
	{Name: "arg-required-input-var", Query: `query($f: Filter!){ find(f:$f) { __typename } hello }`, Vars: map[string]any{"f": map[string]any{"nested": map[string]any{"blob": "BLOB_ERR"}}}},
	{Name: "arg-ok-and-bad", Query: `{ a: echo(b:"fine") b: echo(b:"BLOB_ERR") c: echo(b:"BLOB_PANIC") }`},
}

// BlobCorpus selects custom-scalar values (serialisation-time fault points).
var BlobCorpus = []Op{
	{Name: "blob-me", Query: `{ me { id blob } hello }`},
	{Name: "blob-echo", Query: `{ echo(b:"v") maybe }`},
	{Name: "blob-users", Query: `{ users { blob name } }`},
}
