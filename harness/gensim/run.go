// Package gensim is the code-generation simulation for C18. The system under test is gqlgen's
// generator running as a child process built from the scratch copy in which every range over a
// map in the generator packages has been rewritten to a seeded order (tools/instrument
// -maporder). One run generates a probe project under a tape-chosen order seed, start directory,
// prior tree state and GOMAXPROCS and compares the SHA-256 of every file with the canonical
// generation of that project.
package gensim

import (
	"bytes"
	"crypto/sha256"
	"encoding/hex"
	"encoding/json"
	"fmt"
	"io/fs"
	"os"
	"os/exec"
	"path/filepath"
	"sort"
	"strings"
	"sync"

	"verifsim/core"
	"verifsim/execsim"
)

var (
	setupOnce sync.Once
	setupErr  error
	root      string // this worker's private module root
	genBin    string
	projects  []string
	refs      = map[string]map[string]string{}
)

func copyTree(src, dst string) error {
	return filepath.WalkDir(src, func(p string, d fs.DirEntry, err error) error {
		if err != nil {
			return err
		}
		rel, _ := filepath.Rel(src, p)
		if d.IsDir() {
			return os.MkdirAll(filepath.Join(dst, rel), 0o755)
		}
		b, err := os.ReadFile(p)
		if err != nil {
			return err
		}
		return os.WriteFile(filepath.Join(dst, rel), b, 0o644)
	})
}

func setup() {
	mod := os.Getenv("SIM_MOD") // scratch/verifsim: go.mod, go.sum, gen.bin, genprojects/
	if mod == "" {
		setupErr = fmt.Errorf("SIM_MOD not set")
		return
	}
	genBin = filepath.Join(mod, "gen.bin")
	var err error
	root, err = os.MkdirTemp("", "gensim-")
	if err != nil {
		setupErr = err
		return
	}
	gomod, err := os.ReadFile(filepath.Join(mod, "go.mod"))
	if err != nil {
		setupErr = err
		return
	}
	abs, _ := filepath.Abs(filepath.Join(mod, "..", "gqlgen"))
	gm := strings.Replace(string(gomod), "=> ../gqlgen", "=> "+abs, 1)
	os.WriteFile(filepath.Join(root, "go.mod"), []byte(gm), 0o644)
	gosum, _ := os.ReadFile(filepath.Join(mod, "go.sum"))
	os.WriteFile(filepath.Join(root, "go.sum"), gosum, 0o644)
	ents, err := os.ReadDir(filepath.Join(mod, "genprojects"))
	if err != nil {
		setupErr = err
		return
	}
	for _, e := range ents {
		if e.IsDir() {
			projects = append(projects, e.Name())
		}
	}
	sort.Strings(projects)
	if len(projects) == 0 {
		setupErr = fmt.Errorf("no generator probe projects")
	}
}

// Cleanup removes the worker's module root (called at process exit by the test main).
func Cleanup() {
	if root != "" {
		os.RemoveAll(root)
	}
}

func resetProject(p string) error {
	dir := filepath.Join(root, "p", p)
	os.RemoveAll(dir)
	if err := copyTree(filepath.Join(os.Getenv("SIM_MOD"), "genprojects", p), dir); err != nil {
		return err
	}
	os.MkdirAll(filepath.Join(dir, "sub", "deeper"), 0o755)
	os.MkdirAll(filepath.Join(dir, "graph"), 0o755)
	return nil
}

func generate(p, startDir string, seed uint64, gomaxprocs int) (string, error) {
	dir := filepath.Join(root, "p", p)
	cmd := exec.Command(genBin, "-auto", "graph/stub_gen.go")
	cmd.Dir = filepath.Join(dir, startDir)
	cmd.Env = append(os.Environ(), fmt.Sprintf("SIMORDER_SEED=%d", seed), fmt.Sprintf("GOMAXPROCS=%d", gomaxprocs),
		"PATH=/opt/veriftools/go1.26.8/bin:"+os.Getenv("PATH"), "GOTOOLCHAIN=local", "GOFLAGS=-mod=mod", "GOPROXY=off", "GOSUMDB=off")
	var out bytes.Buffer
	cmd.Stdout = &out
	cmd.Stderr = &out
	err := cmd.Run()
	return out.String(), err
}

func hashTree(p string) map[string]string {
	dir := filepath.Join(root, "p", p)
	out := map[string]string{}
	filepath.WalkDir(dir, func(path string, d fs.DirEntry, err error) error {
		if err != nil || d.IsDir() {
			return nil
		}
		rel, _ := filepath.Rel(dir, path)
		b, _ := os.ReadFile(path)
		h := sha256.Sum256(b)
		out[rel] = hex.EncodeToString(h[:8])
		return nil
	})
	return out
}

func diffTrees(want, got map[string]string) []string {
	var d []string
	for f, h := range want {
		if g, ok := got[f]; !ok {
			d = append(d, f+" (missing)")
		} else if g != h {
			d = append(d, f)
		}
	}
	for f := range got {
		if _, ok := want[f]; !ok {
			d = append(d, f+" (extra)")
		}
	}
	sort.Strings(d)
	return d
}

// reference is the canonical generation of p: sorted map order, project root, clean tree. The
// first worker to produce it publishes it; every other worker must agree with it.
func reference(rc *core.RunCtx, p string) (map[string]string, bool) {
	if r, ok := refs[p]; ok {
		return r, true
	}
	if err := resetProject(p); err != nil {
		rc.Fail("harness", "setup", "%v", err)
		return nil, false
	}
	if out, err := generate(p, ".", 0, 4); err != nil {
		rc.Fail("generation-failed", p, "canonical generation of %s failed: %v\n%s", p, err, out)
		return nil, false
	}
	mine := hashTree(p)
	shared := filepath.Join(os.Getenv("SIM_MOD"), "genref-"+p+".json")
	b, _ := json.Marshal(mine)
	if f, err := os.OpenFile(shared, os.O_CREATE|os.O_EXCL|os.O_WRONLY, 0o644); err == nil {
		f.Write(b)
		f.Close()
	} else if other, err := os.ReadFile(shared); err == nil && len(other) > 0 {
		var o map[string]string
		if json.Unmarshal(other, &o) == nil {
			if d := diffTrees(o, mine); len(d) > 0 {
				rc.Fail("output-differs-between-processes", p, "two processes generating %s canonically (same inputs, sorted map order) disagree on %v", p, d)
				return nil, false
			}
		}
	}
	refs[p] = mine
	rc.W.Count("reference_generations")
	return mine, true
}

func firstDiff(p, file string, snapshot map[string][]byte) string {
	cur, _ := os.ReadFile(filepath.Join(root, "p", p, file))
	old := snapshot[file]
	cl, ol := strings.Split(string(cur), "\n"), strings.Split(string(old), "\n")
	for i := 0; i < len(cl) && i < len(ol); i++ {
		if cl[i] != ol[i] {
			return fmt.Sprintf("%s line %d:\n  canonical: %s\n  this run : %s", file, i+1, strings.TrimSpace(ol[i]), strings.TrimSpace(cl[i]))
		}
	}
	return fmt.Sprintf("%s: lengths differ (%d vs %d lines)", file, len(ol), len(cl))
}

var canonical = map[string]map[string][]byte{}

func snapshotFiles(p string) map[string][]byte {
	dir := filepath.Join(root, "p", p)
	out := map[string][]byte{}
	filepath.WalkDir(dir, func(path string, d fs.DirEntry, err error) error {
		if err != nil || d.IsDir() {
			return nil
		}
		rel, _ := filepath.Rel(dir, path)
		out[rel], _ = os.ReadFile(path)
		return nil
	})
	return out
}

// Run is the scenario body (not in a bubble: core.Plain).
func Run(rc *core.RunCtx) {
	setupOnce.Do(setup)
	if setupErr != nil {
		rc.Fail("harness", "setup", "%v", setupErr)
		return
	}
	t := rc.Tape
	p := projects[t.Choose(len(projects), "project")]
	_, hadRef := refs[p]
	ref, ok := reference(rc, p)
	if !ok {
		return
	}
	if !hadRef {
		canonical[p] = snapshotFiles(p)
	}
	seed := uint64(1 + t.Choose(1<<20, "order-seed"))
	startDir := []string{".", "sub", "schema", "sub/deeper", "graph"}[t.Choose(5, "startdir")]
	prior := []string{"clean", "own-output", "output-of-other-order"}[t.Choose(3, "prior")]
	gmp := []int{4, 1, 16}[t.Choose(3, "gomaxprocs")]
	check := func(what string) bool {
		got := hashTree(p)
		if d := diffTrees(ref, got); len(d) > 0 {
			first := strings.TrimSuffix(strings.TrimSuffix(d[0], " (missing)"), " (extra)")
			site := p + ":" + first
			if prior != "clean" {
				site += ":regeneration"
			}
			// one specific shape gets its own name: the canonical file followed by nothing but a
			// WARNING block that holds the root resolver type
			if cur, err := os.ReadFile(filepath.Join(root, "p", p, first)); err == nil && len(d) == 1 {
				old := canonical[p][first]
				if bytes.HasPrefix(cur, bytes.TrimRight(old, "\n")) {
					rest := string(cur[len(bytes.TrimRight(old, "\n")):])
					if strings.Contains(rest, "!!! WARNING !!!") && strings.Contains(rest, "type Resolver struct{}") && strings.Count(rest, "\n") <= 12 {
						site = p + ":" + first + ":root-type-copied-to-warning-block"
					}
				}
			}
			rc.Fail("generation-not-deterministic", site, "%s of project %s (order seed %d, start dir %q, prior state %s, GOMAXPROCS %d) differs from the canonical generation in %v\n%s", what, p, seed, startDir, prior, gmp, d, firstDiff(p, strings.TrimSuffix(strings.TrimSuffix(d[0], " (missing)"), " (extra)"), canonical[p]))
			return false
		}
		return true
	}
	if prior == "clean" {
		if err := resetProject(p); err != nil {
			rc.Fail("harness", "setup", "%v", err)
			return
		}
	} else {
		// the tree holds a previous generation: the canonical one (own output) or, first, one
		// made under another order
		if prior == "output-of-other-order" {
			if err := resetProject(p); err != nil {
				rc.Fail("harness", "setup", "%v", err)
				return
			}
			if out, err := generate(p, ".", seed+7, gmp); err != nil {
				rc.Fail("generation-failed", p, "%v\n%s", err, out)
				return
			}
			if !check("first generation") {
				return
			}
			rc.W.Count("generations")
		} else if d := diffTrees(ref, hashTree(p)); len(d) > 0 {
			// make sure the tree really holds the canonical output
			resetProject(p)
			if out, err := generate(p, ".", 0, 4); err != nil {
				rc.Fail("generation-failed", p, "%v\n%s", err, out)
				return
			}
		}
	}
	if out, err := generate(p, startDir, seed, gmp); err != nil {
		rc.Fail("generation-failed", p, "generation of %s from %q failed: %v\n%s", p, startDir, err, out)
		return
	}
	rc.W.Count("generations")
	what := "generation"
	if prior != "clean" {
		what = "re-generation over existing output"
	}
	if !check(what) {
		return
	}
	rc.W.Count("project_" + p)
	rc.W.Count("prior_" + prior)
	rc.W.Count("startdir_" + startDir)
	rc.Res.Nontrivial = true
	rc.Res.Sig = execsim.SigOf(p, seed, startDir, prior, gmp)
	rc.Res.Sample = map[string]any{"project": p, "order_seed": seed, "start_dir": startDir, "prior_state": prior, "gomaxprocs": gmp, "files": len(ref)}
}
