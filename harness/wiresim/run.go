// Package wiresim is the wire-fault simulation for C10: valid requests on every HTTP transport
// are corrupted structurally or cut/failed at arbitrary points of the request stream, uploads are
// pushed through size limits, spill files and a failing temp directory; the oracle is that
// gqlgen's own code never reaches the recover hook, answers with a well-formed error (or
// success), enforces limits, removes every temp file and delivers exact upload bytes.
package wiresim

import (
	"bytes"
	"context"
	"crypto/sha1"
	"encoding/hex"
	"encoding/json"
	"errors"
	"fmt"
	"io"
	"mime"
	"mime/multipart"
	"net/http"
	"net/http/httptest"
	"net/textproto"
	"net/url"
	"os"
	"path/filepath"
	"reflect"
	"runtime"
	"sort"
	"strings"
	"sync/atomic"
	"testing/synctest"
	"time"

	"github.com/99designs/gqlgen/graphql"
	"github.com/99designs/gqlgen/graphql/handler"
	"github.com/99designs/gqlgen/graphql/handler/apollofederatedtracingv1"
	"github.com/99designs/gqlgen/graphql/handler/extension"
	"github.com/99designs/gqlgen/graphql/handler/lru"
	"github.com/99designs/gqlgen/graphql/handler/transport"
	"github.com/vektah/gqlparser/v2/ast"

	"verifsim/core"
	"verifsim/execsim"
	"verifsim/parsers"
	"verifsim/probereg"
	"verifsim/refexec"
	"verifsim/simhttp"
	"verifsim/uni"
)

var uploadType = reflect.TypeOf(graphql.Upload{})

func collectUploads(v reflect.Value, out *[]graphql.Upload) {
	switch v.Kind() {
	case reflect.Ptr, reflect.Interface:
		if !v.IsNil() {
			collectUploads(v.Elem(), out)
		}
	case reflect.Struct:
		if v.Type() == uploadType {
			*out = append(*out, v.Interface().(graphql.Upload))
			return
		}
		for i := 0; i < v.NumField(); i++ {
			collectUploads(v.Field(i), out)
		}
	case reflect.Slice:
		for i := 0; i < v.Len(); i++ {
			collectUploads(v.Index(i), out)
		}
	}
}

func describe(name, ctype string, content []byte) string {
	h := sha1.Sum(content)
	return fmt.Sprintf("%s|%s|%d|%s", name, ctype, len(content), hex.EncodeToString(h[:8]))
}

type file struct {
	Name, CType string
	Content     []byte
}

type baseReq struct {
	Query  string
	Vars   map[string]any
	OpName string
	Files  []file              // multipart only
	Map    map[string][]string // multipart only
	// expected upload descriptions in resolver order (well-formed requests)
	WantUploads []string
}

var plainOps = []baseReq{
	{Query: `{ hello maybe }`},
	{Query: `query Q($id: ID!) { user(id: $id) { id name } }`, Vars: map[string]any{"id": "1"}, OpName: "Q"},
	{Query: `query($f: Filter) { search(f: $f) { __typename } }`, Vars: map[string]any{"f": map[string]any{"q": "x", "tags": []any{"a", "b"}, "nested": map[string]any{"limit": 2}}}},
	{Query: `mutation M($n: Int!) { inc(by: $n) }`, Vars: map[string]any{"n": 3}, OpName: "M"},
	{Query: `{ me { id friends { name } } }`},
}

func mkFile(t *core.Tape, i int) file {
	n := []int{0, 1, 17, 300, 5000}[t.Choose(5, "filesize")]
	b := make([]byte, n)
	for j := range b {
		b[j] = byte('a' + (j*7+i*13)%26)
	}
	return file{Name: fmt.Sprintf("f%d.txt", i), CType: []string{"text/plain", "application/octet-stream", ""}[t.Choose(3, "ctype")], Content: b}
}

func uploadReq(t *core.Tape) baseReq {
	switch t.Choose(5, "upkind") {
	case 0:
		f := mkFile(t, 0)
		return baseReq{Query: `mutation($file: Upload!) { up(file: $file) }`, Vars: map[string]any{"file": nil}, Files: []file{f},
			Map: map[string][]string{"0": {"variables.file"}}, WantUploads: []string{describe(f.Name, f.CType, f.Content)}}
	case 1:
		f0, f1 := mkFile(t, 0), mkFile(t, 1)
		return baseReq{Query: `mutation($files: [Upload!]!) { ups(files: $files) }`, Vars: map[string]any{"files": []any{nil, nil}}, Files: []file{f0, f1},
			Map: map[string][]string{"0": {"variables.files.0"}, "1": {"variables.files.1"}}, WantUploads: []string{describe(f0.Name, f0.CType, f0.Content), describe(f1.Name, f1.CType, f1.Content)}}
	case 2:
		// one file mapped to two variable paths: two independently readable uploads
		f := mkFile(t, 0)
		return baseReq{Query: `mutation($files: [Upload!]!) { ups(files: $files) }`, Vars: map[string]any{"files": []any{nil, nil}}, Files: []file{f},
			Map: map[string][]string{"0": {"variables.files.0", "variables.files.1"}}, WantUploads: []string{describe(f.Name, f.CType, f.Content), describe(f.Name, f.CType, f.Content)}}
	case 3:
		f0, f1, f2 := mkFile(t, 0), mkFile(t, 1), mkFile(t, 2)
		return baseReq{Query: `mutation($in: UpIn!) { upIn(in: $in) }`,
			Vars:        map[string]any{"in": map[string]any{"tag": "t", "file": nil, "files": []any{nil}, "nested": map[string]any{"file": nil}}},
			Files:       []file{f0, f1, f2},
			Map:         map[string][]string{"0": {"variables.in.file"}, "1": {"variables.in.files.0"}, "2": {"variables.in.nested.file"}},
			WantUploads: []string{describe(f0.Name, f0.CType, f0.Content), describe(f1.Name, f1.CType, f1.Content), describe(f2.Name, f2.CType, f2.Content)}}
	default:
		f := mkFile(t, 0)
		return baseReq{Query: `mutation($in: UpIn!) { upIn(in: $in) }`,
			Vars:        map[string]any{"in": map[string]any{"file": nil, "nested": map[string]any{"files": []any{nil, nil}}}},
			Files:       []file{f},
			Map:         map[string][]string{"0": {"variables.in.file", "variables.in.nested.files.1", "variables.in.nested.files.0"}},
			WantUploads: []string{describe(f.Name, f.CType, f.Content), describe(f.Name, f.CType, f.Content), describe(f.Name, f.CType, f.Content)}}
	}
}

// corrupt replaces one node of a JSON tree (chosen by the tape) or deletes a member.
func corrupt(t *core.Tape, v any) (any, string) {
	type slot struct {
		set  func(any)
		del  func()
		path string
	}
	var slots []slot
	var walk func(v any, path string, set func(any), del func())
	walk = func(v any, path string, set func(any), del func()) {
		slots = append(slots, slot{set, del, path})
		switch x := v.(type) {
		case map[string]any:
			keys := make([]string, 0, len(x))
			for k := range x {
				keys = append(keys, k)
			}
			sort.Strings(keys)
			for _, k := range keys {
				k := k
				walk(x[k], path+"."+k, func(n any) { x[k] = n }, func() { delete(x, k) })
			}
		case []any:
			for i := range x {
				i := i
				walk(x[i], fmt.Sprintf("%s[%d]", path, i), func(n any) { x[i] = n }, nil)
			}
		}
	}
	root := v
	walk(v, "$", func(n any) { root = n }, nil)
	s := slots[t.Choose(len(slots), "corrupt-at")]
	repl := []any{nil, json.Number("7"), "str", []any{}, map[string]any{}, true, []any{nil}, map[string]any{"x": nil}, json.Number("-1")}
	k := t.Choose(len(repl)+1, "corrupt-with")
	if k == len(repl) {
		if s.del != nil {
			s.del()
			return root, "delete " + s.path
		}
		k = 0
	}
	s.set(repl[k])
	b, _ := json.Marshal(repl[k])
	return root, fmt.Sprintf("%s := %s", s.path, b)
}

func deepCopy(v any) any {
	b, _ := json.Marshal(v)
	dec := json.NewDecoder(bytes.NewReader(b))
	dec.UseNumber()
	var out any
	dec.Decode(&out)
	return out
}

type holdKey struct{}
type otherKey struct{}

type outcome struct {
	Status int
	Header http.Header
	Body   []byte
}

// Run is the scenario body (HTTP transports; websocket frames are in ws.go).
func Run(rc *core.RunCtx) {
	t := rc.Tape
	w := rc.W
	if t.Choose(6, "family") == 5 {
		runWS(rc)
		return
	}
	v := &probereg.Core[t.Choose(len(probereg.Core), "variant")]
	u := uni.New(w, v, &refexec.Plan{Seed: 3, MaxList: 2})
	u.Park = false
	v.SetBlobHook(nil)
	var resolverCalls atomic.Int32
	var gotUploads []string
	u.OnCall = func(ctx context.Context, kind, path string) { resolverCalls.Add(1) }
	upl := func(ctx context.Context, args []reflect.Value) (any, error) {
		if ctx.Value(holdKey{}) != nil {
			// the judged request of a concurrent pair: its uploads have been stored, now another
			// request is served completely before this resolver reads them
			w.Park("upload", "held", nil)
		}
		var ups []graphql.Upload
		for _, a := range args[1:] {
			collectUploads(a, &ups)
		}
		var descs []string
		for _, up := range ups {
			if up.File == nil {
				descs = append(descs, "nil-file")
				continue
			}
			b, err := io.ReadAll(up.File)
			if err != nil {
				return nil, fmt.Errorf("X:read upload: %v", err)
			}
			if int64(len(b)) != up.Size {
				descs = append(descs, fmt.Sprintf("size-mismatch:%d!=%d", len(b), up.Size))
				continue
			}
			descs = append(descs, describe(up.Filename, up.ContentType, b))
		}
		if ctx.Value(otherKey{}) == nil {
			gotUploads = append(gotUploads, descs...)
		}
		return descs, nil
	}
	u.Custom = map[string]func(ctx context.Context, args []reflect.Value) (any, error){
		"Mutation.up": func(ctx context.Context, args []reflect.Value) (any, error) {
			d, err := upl(ctx, args)
			if err != nil {
				return nil, err
			}
			return strings.Join(d.([]string), ","), nil
		},
		"Mutation.ups":  upl,
		"Mutation.upIn": upl,
	}

	// private temp dir
	tmpRoot, err := os.MkdirTemp("", "wiresim-")
	if err != nil {
		rc.Fail("harness", "tmp", "%v", err)
		return
	}
	defer os.RemoveAll(tmpRoot)
	tmpDir := filepath.Join(tmpRoot, "t")
	os.Mkdir(tmpDir, 0o755)
	oldTmp := os.Getenv("TMPDIR")
	os.Setenv("TMPDIR", tmpDir)
	defer os.Setenv("TMPDIR", oldTmp)

	kinds := []string{"post", "get", "graphql", "urlencoded", "multipart", "sse", "mmixed"}
	kind := kinds[t.Choose(len(kinds), "transport")]
	mf := transport.MultipartForm{}
	var otherBody []byte // body of a second upload request served while the first is held
	var maxUpload int64
	var base baseReq
	if kind == "multipart" {
		base = uploadReq(t)
	} else {
		base = plainOps[t.Choose(len(plainOps), "op")]
	}
	base.Vars, _ = deepCopy(base.Vars).(map[string]any)

	var recovered atomic.Int32
	srv := handler.New(u.ES)
	srv.SetRecoverFunc(func(ctx context.Context, err any) error {
		recovered.Add(1)
		w.Logf("recover", "", "%v", err)
		return fmt.Errorf("recovered:%v", err)
	})

	fault := []string{"none", "truncate-eof", "truncate-err", "rechunk", "content-length", "corrupt", "json-prefix", "invalid-doc", "opname", "after-wrong-shape", "upgrade-header", "headers-member"}[t.Choose(12, "fault")]
	// a document cache, as handler.NewDefaultServer configures one
	if t.Bool(1, 2, "query-cache") {
		srv.SetQueryCache(lru.New[*ast.QueryDocument](4))
	}
	var faultDesc string
	var body []byte
	hdr := http.Header{}
	method, target := "POST", "/query"
	ops := map[string]any{"query": base.Query}
	if base.Vars != nil {
		ops["variables"] = base.Vars
	}
	if base.OpName != "" {
		ops["operationName"] = base.OpName
	}
	noQuery := false
	if fault == "after-wrong-shape" {
		if kind != "post" {
			fault = "none"
		} else {
			// the request that is judged carries no query at all; it follows (further down) a
			// request whose body is valid JSON of the wrong shape
			ops = []map[string]any{{}, {"variables": map[string]any{}}, {"operationName": "Q"}, {"extensions": map[string]any{}}}[t.Choose(4, "empty-shape")]
			noQuery = true
			faultDesc = "no query, after a wrong-shape body"
		}
	}
	if fault == "headers-member" {
		// RawParams has a member tagged "headers": a JSON body can carry one. With an extension
		// that reads request headers (Apollo federated tracing) whatever shape it has must not
		// crash the server.
		if ops == nil || (kind != "post" && kind != "sse" && kind != "mmixed") {
			fault = "none"
		} else {
			srv.Use(&apollofederatedtracingv1.Tracer{})
			ops["headers"] = []any{
				map[string]any{"Apollo-Federation-Include-Trace": []any{}},
				map[string]any{"Apollo-Federation-Include-Trace": nil},
				map[string]any{"Apollo-Federation-Include-Trace": []any{"ftv1"}},
				map[string]any{"apollo-federation-include-trace": []any{"ftv1", "x"}},
				map[string]any{"X": "not-a-list"},
				"not-an-object", nil, []any{1},
			}[t.Choose(8, "headers-shape")]
			faultDesc = fmt.Sprintf("headers member %v", ops["headers"])
		}
	}
	if fault == "opname" {
		// an operationName that is almost, but not exactly, the name of an operation in the
		// document (or names none): a client error, or that operation - never a crash. A
		// complexity limit makes the server resolve the name a second time.
		srv.Use(extension.FixedComplexityLimit(1 << 20))
		name := base.OpName
		if name == "" {
			name = "Q"
		}
		ops["operationName"] = []string{name + " ", " " + name, name + "\n", "\t" + name, strings.ToLower(name), name + name, ""}[t.Choose(7, "opname-variant")]
		faultDesc = fmt.Sprintf("operationName %q", ops["operationName"])
	}
	if fault == "invalid-doc" {
		// syntactically fine, rejected by validation (or by operation selection)
		docs := []string{`{ nope }`, `{ me { ...Missing } }`, `{ me { id nope { x } } }`, `query A { hello } query B { hello }`,
			`{ user(id: {a: 1}) { id } }`, `{ me }`, `{ hello { x } }`, `fragment F on User { id } { me { ...F ...G } }`, `query($v: Nope) { hello }`, `{ me { id @nope } }`}
		ops["query"] = docs[t.Choose(len(docs), "invalid-doc")]
		faultDesc = "invalid document"
	}
	if fault == "corrupt" {
		var c any
		c, faultDesc = corrupt(t, map[string]any(ops))
		if m, ok := c.(map[string]any); ok {
			ops = m
		} else {
			ops = nil
			body, _ = json.Marshal(c) // the whole document replaced (e.g. by null)
		}
	}
	wellFormed := fault == "none" || fault == "rechunk"
	if fault == "json-prefix" {
		wellFormed = false
	}
	tmpFault := ""
	switch kind {
	case "post", "sse", "mmixed":
		if ops != nil {
			body, _ = json.Marshal(ops)
		}
		hdr.Set("Content-Type", "application/json")
		if kind == "sse" {
			hdr.Set("Accept", "text/event-stream")
		}
		if kind == "mmixed" {
			hdr.Set("Accept", "multipart/mixed")
		}
	case "graphql":
		hdr.Set("Content-Type", "application/graphql")
		body = []byte(base.Query)
		if fault == "corrupt" {
			cut := t.Choose(len(body)+1, "gql-cut")
			body = append(append([]byte{}, body[:cut]...), []byte("}{ \x00")...)
			faultDesc = fmt.Sprintf("garbage at %d", cut)
		}
		if base.Vars != nil || base.OpName != "" {
			wellFormed = false // application/graphql carries no variables
		}
	case "get":
		q := url.Values{}
		for k, val := range ops {
			if s, ok := val.(string); ok {
				q.Set(k, s)
			} else {
				b, _ := json.Marshal(val)
				q.Set(k, string(b))
			}
		}
		if ops == nil {
			q.Set("query", string(body))
		}
		method, target = "GET", "/query?"+q.Encode()
		body = nil
		if strings.HasPrefix(strings.TrimSpace(base.Query), "mutation") {
			wellFormed = false // GET only allows queries
		}
	case "urlencoded":
		// the transport accepts a JSON document, "query=" + an urlencoded query that starts
		// with "{", or plain query text
		hdr.Set("Content-Type", "application/x-www-form-urlencoded")
		shape := t.Choose(3, "urlenc-shape")
		switch {
		case shape == 0 || base.Vars != nil || base.OpName != "" || ops == nil || fault == "corrupt":
			if ops != nil {
				body, _ = json.Marshal(ops)
			}
		case shape == 1 && strings.HasPrefix(base.Query, "{"):
			body = []byte("query=" + url.QueryEscape(base.Query))
		default:
			body = []byte("query=" + base.Query)
		}
	case "multipart":
		// upload-specific faults on top of the generic ones
		mpf := []string{"none", "none", "over-limit", "spill", "spill", "tmp-missing", "tmp-removed", "parts-reorder", "part-dup", "part-drop", "map-rewrite", "no-variables"}[t.Choose(12, "mp-fault")]
		var mbuf bytes.Buffer
		mw := multipart.NewWriter(&mbuf)
		opsJSON := body
		if ops != nil {
			opsJSON, _ = json.Marshal(ops)
		}
		m := map[string][]string{}
		for k, ps := range base.Map {
			m[k] = append([]string(nil), ps...)
		}
		if mpf == "no-variables" && ops != nil {
			delete(ops, "variables")
			opsJSON, _ = json.Marshal(ops)
			wellFormed = false
		}
		if mpf == "map-rewrite" {
			keys := make([]string, 0, len(m))
			for k := range m {
				keys = append(keys, k)
			}
			sort.Strings(keys)
			k := keys[t.Choose(len(keys), "map-key")]
			i := t.Choose(len(m[k]), "map-path")
			rewrites := []string{"variables.files.18446744073709551615", "variables.files.9223372036854775808", "variables.files.4294967296", "variables.in.files.18446744073709551615", "variables.files.0x1", "variables.files. 1", "variables.nope", "variables.files.5", "variables.files.-1", "variables.file.0", "variables.in.files.x", "file", "variables.", "variables.in.tag.x", "variables.in.nested.nested.file", "variables.files", "variables.in"}
			m[k][i] = rewrites[t.Choose(len(rewrites), "map-to")]
			faultDesc += " map[" + k + "]=" + m[k][i]
			wellFormed = false
		}
		type part struct {
			name string
			f    *file
			data []byte
		}
		mapJSON, _ := json.Marshal(m)
		parts := []part{{name: "operations", data: opsJSON}, {name: "map", data: mapJSON}}
		for i := range base.Files {
			parts = append(parts, part{name: fmt.Sprint(i), f: &base.Files[i]})
		}
		switch mpf {
		case "parts-reorder":
			i, j := t.Choose(len(parts), "swap-i"), t.Choose(len(parts), "swap-j")
			parts[i], parts[j] = parts[j], parts[i]
			if i != j && (i < 2 || j < 2) {
				wellFormed = false
			}
			// file parts may come in any order
		case "part-dup":
			i := t.Choose(len(parts), "dup")
			parts = append(parts[:i+1], parts[i:]...)
			wellFormed = false
		case "part-drop":
			i := t.Choose(len(parts), "drop")
			parts = append(parts[:i], parts[i+1:]...)
			wellFormed = false
		}
		for _, p := range parts {
			if p.f == nil {
				fw, _ := mw.CreateFormField(p.name)
				fw.Write(p.data)
				continue
			}
			h := textproto.MIMEHeader{}
			h.Set("Content-Disposition", fmt.Sprintf(`form-data; name="%s"; filename="%s"`, p.name, p.f.Name))
			if p.f.CType != "" {
				h.Set("Content-Type", p.f.CType)
			}
			fw, _ := mw.CreatePart(h)
			fw.Write(p.f.Content)
		}
		mw.Close()
		body = mbuf.Bytes()
		hdr.Set("Content-Type", mw.FormDataContentType())
		if mpf == "spill" && (fault == "truncate-eof" || fault == "truncate-err" || fault == "rechunk" || fault == "content-length") && t.Bool(2, 3, "spill-unfaulted") {
			fault = "none" // (these stream faults are applied further down: not this time)
		}
		if mpf == "spill" && fault == "none" && t.Bool(2, 3, "concurrent-upload") {
			// a second client uploads files with the SAME names and other contents while the
			// first request's resolver has not read its uploads yet
			var mbuf2 bytes.Buffer
			mw2 := multipart.NewWriter(&mbuf2)
			mw2.SetBoundary(mw.Boundary())
			for _, p := range parts {
				if p.f == nil {
					fw, _ := mw2.CreateFormField(p.name)
					fw.Write(p.data)
					continue
				}
				h := textproto.MIMEHeader{}
				h.Set("Content-Disposition", fmt.Sprintf(`form-data; name="%s"; filename="%s"`, p.name, p.f.Name))
				if p.f.CType != "" {
					h.Set("Content-Type", p.f.CType)
				}
				fw, _ := mw2.CreatePart(h)
				other := make([]byte, len(p.f.Content))
				for i, c := range p.f.Content {
					other[i] = c ^ 0x20
				}
				fw.Write(other)
			}
			mw2.Close()
			otherBody = mbuf2.Bytes()
		}
		switch mpf {
		case "over-limit":
			maxUpload = int64(len(body)) - int64(1+t.Choose(200, "over-by"))
			if maxUpload < 1 {
				maxUpload = 1
			}
			mf.MaxUploadSize = maxUpload
			wellFormed = false
		case "spill":
			mf.MaxMemory = []int64{1, int64(len(body)) - 1, int64(len(body))}[t.Choose(3, "maxmem")]
			if mf.MaxMemory < 1 {
				mf.MaxMemory = 1
			}
		case "tmp-missing":
			mf.MaxMemory = 1
			os.Setenv("TMPDIR", filepath.Join(tmpRoot, "does-not-exist"))
			wellFormed = false
			tmpFault = mpf
		case "tmp-removed":
			mf.MaxMemory = 1
			tmpFault = mpf
			wellFormed = false
		}
		if mpf != "none" {
			faultDesc = mpf + faultDesc
		}
	}
	if fault == "upgrade-header" {
		// an ordinary HTTP request that carries an Upgrade header: the websocket transport takes
		// it, the handshake fails, and the client must get one well-formed error
		srv.AddTransport(transport.Websocket{})
		hdr.Set("Upgrade", []string{"websocket", "h2c", "WebSocket"}[t.Choose(3, "upgrade-value")])
		if t.Bool(1, 2, "connection-upgrade") {
			hdr.Set("Connection", "Upgrade")
		}
		faultDesc = "Upgrade: " + hdr.Get("Upgrade")
	}
	srv.AddTransport(transport.SSE{})
	srv.AddTransport(transport.MultipartMixed{})
	srv.AddTransport(transport.Options{})
	srv.AddTransport(transport.GET{})
	srv.AddTransport(transport.POST{})
	srv.AddTransport(transport.GRAPHQL{})
	srv.AddTransport(transport.UrlEncodedForm{})
	srv.AddTransport(mf)

	if fault == "json-prefix" {
		// a JSON decoder reads only the first value of a stream: put another complete JSON value
		// in front of the document
		pre := []string{"null", "null ", "7 ", `"x"`, "[]", "{}", "true", "null\n"}[t.Choose(8, "prefix")]
		switch kind {
		case "post", "sse", "mmixed", "urlencoded":
			body = append([]byte(pre), body...)
			faultDesc = "JSON value " + pre + " in front of the document"
		default:
			fault = "none"
		}
	}
	rb := &simhttp.Body{Data: body, FailAt: -1}
	contentLength := int64(len(body))
	switch fault {
	case "truncate-eof", "truncate-err":
		if len(body) > 0 {
			k := t.Choose(len(body), "cut")
			if fault == "truncate-eof" {
				rb.Data = body[:k]
			} else {
				rb.FailAt = k
				rb.Err = errors.New("simulated connection reset")
			}
			faultDesc += fmt.Sprintf(" cut at byte %d of %d", k, len(body))
		} else {
			fault = "none"
		}
	case "rechunk":
		for i := 0; i < 8; i++ {
			rb.Chunks = append(rb.Chunks, 1+t.Choose(9, "chunk"))
		}
	case "content-length":
		switch t.Choose(3, "cl") {
		case 0:
			contentLength = contentLength / 2
		case 1:
			contentLength = contentLength + 100
		default:
			contentLength = -1
		}
		faultDesc += fmt.Sprintf(" content-length %d for %d bytes", contentLength, len(body))
		// a wrong length is a client error or harmless; the request may still succeed
	}
	if tmpFault == "tmp-removed" && len(body) > 0 {
		at := t.Choose(len(body), "rm-at")
		rb.OnOffset = map[int]func(){at: func() { os.RemoveAll(tmpDir) }}
	}
	var r *http.Request
	if method == "GET" {
		r = httptest.NewRequest(method, target, nil)
	} else {
		r = httptest.NewRequest(method, target, rb)
		r.ContentLength = contentLength
	}
	for k, vs := range hdr {
		r.Header[k] = vs
	}
	if fault == "after-wrong-shape" {
		// the transport's pool of request objects is process-global: start from an empty one, so
		// that this run (and its replay) does not depend on its predecessors in the process
		runtime.GC()
		runtime.GC()
		pre := []string{
			`{"query":"{ hello maybe }","variables":{"id":"1"},"operationName":7}`,
			`{"query":"query Q($id: ID!) { user(id: $id) { id } }","operationName":"Q","variables":{"id":"1"},"extensions":5}`,
			`{"query":"{ me { id } }","variables":"x"}`,
		}[t.Choose(3, "wrong-shape")]
		r0 := httptest.NewRequest("POST", "/query", strings.NewReader(pre))
		r0.Header.Set("Content-Type", "application/json")
		srv.ServeHTTP(httptest.NewRecorder(), r0)
		resolverCalls.Store(0)
		faultDesc += " " + pre
	}
	rec := httptest.NewRecorder()
	if otherBody != nil {
		doneA := make(chan struct{})
		go func() {
			defer close(doneA)
			srv.ServeHTTP(rec, r.WithContext(context.WithValue(r.Context(), holdKey{}, true)))
		}()
		synctest.Wait()
		rB := httptest.NewRequest("POST", "/query", bytes.NewReader(otherBody))
		for k, vs := range hdr {
			rB.Header[k] = vs
		}
		srv.ServeHTTP(httptest.NewRecorder(), rB.WithContext(context.WithValue(rB.Context(), otherKey{}, true)))
		for _, it := range w.Parked() {
			w.Release(it, nil)
		}
		<-doneA
		faultDesc += " (another upload with the same file names served meanwhile)"
		w.Count("concurrent_uploads")
	} else {
		srv.ServeHTTP(rec, r)
	}
	// the same bytes again (a client retrying): the second answer is the one judged below, the
	// recover hook is watched over both
	if (fault == "none" || fault == "corrupt" || fault == "json-prefix" || fault == "invalid-doc" || fault == "opname") && kind != "multipart" && t.Bool(1, 3, "repeat") {
		var r2 *http.Request
		if method == "GET" {
			r2 = httptest.NewRequest(method, target, nil)
		} else {
			r2 = httptest.NewRequest(method, target, &simhttp.Body{Data: body, FailAt: -1})
			r2.ContentLength = contentLength
		}
		for k, vs := range hdr {
			r2.Header[k] = vs
		}
		rec = httptest.NewRecorder()
		srv.ServeHTTP(rec, r2)
		faultDesc += " (sent twice)"
		w.Count("repeated_requests")
	}
	out := outcome{Status: rec.Code, Header: rec.Header(), Body: rec.Body.Bytes()}

	desc := func() string {
		return fmt.Sprintf("transport=%s fault=%s %s\nrequest body (%d bytes): %q\nheaders=%v target=%s\nresponse %d %q: %q\nresolver calls=%d uploads=%v", kind, fault, faultDesc, len(body), clip(string(body), 1500), hdr, clip(target, 400), out.Status, out.Header.Get("Content-Type"), clip(string(out.Body), 1200), resolverCalls.Load(), gotUploads)
	}
	if n := recovered.Load(); n != 0 {
		rc.Fail("recover-hook-reached-without-user-panic", recoverSite(w), "RecoverFunc was invoked %d time(s) although no user code panics\n%s", n, desc())
		return
	}
	// temp files
	os.Setenv("TMPDIR", tmpDir)
	if ents, err := os.ReadDir(tmpDir); err == nil && len(ents) > 0 {
		rc.Fail("temp-file-left-behind", kind, "%d file(s) remain in the private TMPDIR (%s)\n%s", len(ents), ents[0].Name(), desc())
		return
	}
	// response shape
	ct, _, _ := mime.ParseMediaType(out.Header.Get("Content-Type"))
	ok, why := true, ""
	switch ct {
	case "text/event-stream":
		evs, err := parsers.ParseSSE(out.Body, false)
		if err != nil {
			ok, why = false, err.Error()
		}
		for _, e := range evs {
			if e.Kind == "next" {
				if o, w2 := wellFormedResponse([]byte(e.Data)); !o {
					ok, why = false, w2
				}
			}
		}
	case "multipart/mixed":
		// framing is C12's concern; here only that it is produced without panic
	default:
		if len(out.Body) == 0 && out.Status >= 200 && out.Status < 300 && method == "GET" && false {
			ok, why = false, "empty body"
		} else {
			ok, why = wellFormedResponse(out.Body)
		}
	}
	if noQuery && resolverCalls.Load() > 0 {
		rc.Fail("executed-without-a-query", kind, "the request carries no query, yet %d resolver calls were made\n%s", resolverCalls.Load(), desc())
		return
	}
	if !ok {
		rc.Fail("malformed-error-response", kind, "%s\n%s", why, desc())
		return
	}
	// limits
	if maxUpload > 0 && int64(len(body)) > maxUpload && resolverCalls.Load() > 0 {
		rc.Fail("upload-limit-not-enforced", "multipart", "body of %d bytes exceeds MaxUploadSize %d but a resolver ran\n%s", len(body), maxUpload, desc())
		return
	}
	// exact delivery for well-formed uploads
	if kind == "multipart" && wellFormed && (fault == "none" || fault == "rechunk") {
		if strings.Join(gotUploads, ";") != strings.Join(base.WantUploads, ";") {
			rc.Fail("upload-content", "multipart", "resolver saw uploads %v, expected %v\n%s", gotUploads, base.WantUploads, desc())
			return
		}
		w.Count("uploads_verified")
	}
	if wellFormed && fault == "none" && kind != "multipart" {
		if j, err := parsers.ParseJSON(out.Body); err == nil && ct == "application/json" {
			if d := j.Get("data"); d == nil || d.IsNull() {
				rc.Fail("valid-request-rejected", kind, "%s", desc())
				return
			}
		}
	}
	w.Count("transport_" + kind)
	w.Count("fault_" + fault)
	if resolverCalls.Load() > 0 {
		w.Count("requests_executed")
	} else {
		w.Count("requests_refused")
	}
	rc.Res.Nontrivial = fault != "none" || kind == "multipart"
	rc.Res.Sig = execsim.SigOf(kind, fault, faultDesc, base.Query, out.Status)
	rc.Res.Sample = map[string]any{"transport": kind, "fault": fault, "detail": faultDesc, "status": out.Status, "response": clip(string(out.Body), 300)}
	_ = time.Second
}

func recoverSite(w *core.World) string {
	for _, e := range w.Log {
		if e.Kind == "recover" {
			d := e.Detail
			switch {
			case strings.Contains(d, "nil pointer"):
				return "nil-dereference"
			case strings.Contains(d, "index out of range"):
				return "index-out-of-range"
			case strings.Contains(d, "interface conversion"):
				return "interface-conversion"
			case strings.Contains(d, "nil map"):
				return "nil-map"
			}
			return "other-panic"
		}
	}
	return "unknown"
}

// wellFormedResponse: a JSON object that carries data, or a non-empty errors list of objects
// with a string message.
func wellFormedResponse(b []byte) (bool, string) {
	j, err := parsers.ParseJSON(bytes.TrimSpace(b))
	if err != nil {
		return false, "body is not valid JSON: " + err.Error()
	}
	if j.K != parsers.Obj {
		return false, "body is not a JSON object"
	}
	if d := j.Get("data"); d != nil && !d.IsNull() {
		return true, ""
	}
	es := j.Get("errors")
	if es == nil || es.K != parsers.Arr || len(es.A) == 0 {
		return false, "neither data nor a non-empty errors list"
	}
	for _, e := range es.A {
		if m := e.Get("message"); m == nil || m.K != parsers.Str {
			return false, "an error entry has no string message"
		}
	}
	return true, ""
}

func clip(s string, n int) string {
	if len(s) > n {
		return s[:n] + "…"
	}
	return s
}
