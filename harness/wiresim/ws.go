package wiresim

import (
	"bufio"
	"context"
	"encoding/json"
	"fmt"
	"net"
	"net/http"
	"net/url"
	"sync"
	"sync/atomic"
	"testing/synctest"
	"time"

	"github.com/99designs/gqlgen/graphql/handler"
	"github.com/99designs/gqlgen/graphql/handler/transport"
	"github.com/gorilla/websocket"

	"verifsim/core"
	"verifsim/execsim"
	"verifsim/parsers"
	"verifsim/probereg"
	"verifsim/refexec"
	"verifsim/simws"
	"verifsim/uni"
)

type wsMsg struct {
	Name string
	Type int // websocket.TextMessage / BinaryMessage, 0 = raw bytes then close
	Data string
	// Op: this is a start/subscribe with id "1" that must be answered (error/complete/data) or
	// lead to a close
	Op bool
}

func wsMessages(transportWS bool) []wsMsg {
	start := "start"
	if transportWS {
		start = "subscribe"
	}
	st := func(name, payload string) wsMsg {
		return wsMsg{Name: name, Type: websocket.TextMessage, Data: fmt.Sprintf(`{"type":%q,"id":"1","payload":%s}`, start, payload), Op: true}
	}
	ms := []wsMsg{
		st("payload-null", `null`),
		st("payload-number", `5`),
		st("payload-string", `"x"`),
		st("payload-array", `[]`),
		st("payload-bool", `true`),
		st("payload-empty-object", `{}`),
		st("query-number", `{"query":5}`),
		st("query-null", `{"query":null}`),
		st("variables-string", `{"query":"{ hello }","variables":"str"}`),
		st("variables-array", `{"query":"{ hello }","variables":[]}`),
		st("variables-null", `{"query":"{ hello }","variables":null}`),
		st("opname-number", `{"query":"{ hello }","operationName":5}`),
		st("extensions-string", `{"query":"{ hello }","extensions":"x"}`),
		st("valid", `{"query":"{ hello }"}`),
		st("var-missing", `{"query":"query($id:ID!){ user(id:$id){ id } }"}`),
		st("var-wrong-type", `{"query":"query($n:Int!){ __typename }","variables":{"n":"x"}}`),
		{Name: "no-payload", Type: websocket.TextMessage, Data: fmt.Sprintf(`{"type":%q,"id":"1"}`, start), Op: true},
		{Name: "id-number", Type: websocket.TextMessage, Data: fmt.Sprintf(`{"type":%q,"id":5,"payload":{"query":"{ hello }"}}`, start)},
		{Name: "id-null", Type: websocket.TextMessage, Data: fmt.Sprintf(`{"type":%q,"id":null,"payload":{"query":"{ hello }"}}`, start)},
		{Name: "json-null", Type: websocket.TextMessage, Data: `null`},
		{Name: "json-array", Type: websocket.TextMessage, Data: `[]`},
		{Name: "json-string", Type: websocket.TextMessage, Data: `"start"`},
		{Name: "json-number", Type: websocket.TextMessage, Data: `7`},
		{Name: "empty-text", Type: websocket.TextMessage, Data: ``},
		{Name: "not-json", Type: websocket.TextMessage, Data: `{"type":`},
		{Name: "invalid-utf8", Type: websocket.TextMessage, Data: "{\"type\":\"\xff\xfe\"}"},
		{Name: "binary", Type: websocket.BinaryMessage, Data: "\x00\x01\x02"},
		{Name: "unknown-type", Type: websocket.TextMessage, Data: `{"type":"bogus"}`},
		{Name: "type-number", Type: websocket.TextMessage, Data: `{"type":5}`},
		{Name: "type-missing", Type: websocket.TextMessage, Data: `{"id":"1"}`},
		{Name: "second-init", Type: websocket.TextMessage, Data: `{"type":"connection_init"}`},
		{Name: "init-payload-number", Type: websocket.TextMessage, Data: `{"type":"connection_init","payload":5}`},
		{Name: "stop-number-id", Type: websocket.TextMessage, Data: `{"type":"stop","id":7}`},
		{Name: "server-type-from-client", Type: websocket.TextMessage, Data: `{"type":"connection_ack"}`},
		{Name: "torn-frame", Type: 0, Data: "\x81\xfe\x01"},
		{Name: "huge-length-frame", Type: 0, Data: "\x81\xff\xff\xff\xff\xff\xff\xff\xff\xff"},
	}
	if transportWS {
		ms = append(ms,
			wsMsg{Name: "ping-payload-number", Type: websocket.TextMessage, Data: `{"type":"ping","payload":5}`},
			wsMsg{Name: "pong-payload-string", Type: websocket.TextMessage, Data: `{"type":"pong","payload":"x"}`},
			wsMsg{Name: "complete-unknown", Type: websocket.TextMessage, Data: `{"type":"complete","id":"nope"}`},
		)
	} else {
		ms = append(ms, wsMsg{Name: "terminate-with-payload", Type: websocket.TextMessage, Data: `{"type":"connection_terminate","payload":[1]}`})
	}
	return ms
}

func runWS(rc *core.RunCtx) {
	t := rc.Tape
	w := rc.W
	v := &probereg.Core[t.Choose(len(probereg.Core), "variant")]
	u := uni.New(w, v, &refexec.Plan{Seed: 3, MaxList: 2})
	u.Park = false
	v.SetBlobHook(nil)
	transportWS := t.Choose(2, "proto") == 1
	proto := "graphql-ws"
	if transportWS {
		proto = "graphql-transport-ws"
	}
	msgs := wsMessages(transportWS)
	var recovered atomic.Int32
	var recMsg atomic.Value
	srv := handler.New(u.ES)
	srv.AddTransport(transport.Websocket{})
	srv.SetRecoverFunc(func(ctx context.Context, err any) error {
		recovered.Add(1)
		recMsg.Store(fmt.Sprint(err))
		return fmt.Errorf("recovered:%v", err)
	})
	sc, cc := net.Pipe()
	var seq atomic.Int64
	conn := &simws.Conn{Conn: sc, W: w, Name: "srv", Seq: &seq}
	serverDone := make(chan struct{})
	go func() {
		defer close(serverDone)
		br := bufio.NewReader(conn)
		req, err := http.ReadRequest(br)
		if err != nil {
			return
		}
		hw := &simws.HijackWriter{C: conn, BRW: bufio.NewReadWriter(br, bufio.NewWriter(conn))}
		srv.ServeHTTP(hw, req.WithContext(context.Background()))
	}()
	uu, _ := url.Parse("ws://sim/query")
	client, _, err := websocket.NewClient(cc, uu, http.Header{"Sec-WebSocket-Protocol": []string{proto}}, 4096, 4096)
	if err != nil {
		rc.Fail("handshake", "harness", "%v", err)
		return
	}
	conn.Decode.Store(true)
	var mu sync.Mutex
	var frames []string
	closed := false
	go func() {
		for {
			_, b, err := client.ReadMessage()
			if err != nil {
				mu.Lock()
				closed = true
				mu.Unlock()
				return
			}
			mu.Lock()
			frames = append(frames, string(b))
			mu.Unlock()
		}
	}()
	sendCh := make(chan func(), 16)
	go func() {
		for f := range sendCh {
			f()
		}
	}()
	defer close(sendCh)
	sendInit := t.Choose(4, "init?") != 0
	var script []string
	if sendInit {
		sendCh <- func() { client.WriteMessage(websocket.TextMessage, []byte(`{"type":"connection_init"}`)) }
		script = append(script, "init")
		synctest.Wait()
	}
	n := 1 + t.Choose(3, "nmsgs")
	var sent []wsMsg
	for i := 0; i < n; i++ {
		m := msgs[t.Choose(len(msgs), "msg")]
		sent = append(sent, m)
		script = append(script, m.Name)
		if m.Type == 0 {
			sendCh <- func() { cc.Write([]byte(m.Data)); cc.Close() }
			synctest.Wait()
			break
		}
		sendCh <- func() { client.WriteMessage(m.Type, []byte(m.Data)) }
		synctest.Wait()
		// let timers (none configured) and goroutines settle
		core.Nap(time.Millisecond)
		synctest.Wait()
	}
	mu.Lock()
	wasClosed := closed
	got := append([]string(nil), frames...)
	mu.Unlock()
	// a server that has stopped serving the connection must have closed it: a handler that
	// returns while the hijacked socket stays open leaves the client waiting for ever
	abandoned := false
	select {
	case <-serverDone:
		abandoned = !wasClosed
	default:
	}
	cc.Close()
	synctest.Wait()
	select {
	case <-serverDone:
	default:
		site, dump := core.StuckSite()
		rc.Fail("stuck", site, "the server side did not end after the client closed; script=%v\n%s", script, dump)
		return
	}
	desc := func() string {
		return fmt.Sprintf("proto=%s script=%v\nframes received: %q\nclosed by server before client close: %v", proto, script, got, wasClosed)
	}
	if abandoned {
		rc.Fail("connection-abandoned", "websocket", "the server stopped serving the connection but did not close it (no close frame, socket open)\n%s", desc())
		return
	}
	if recovered.Load() != 0 {
		rc.Fail("recover-hook-reached-without-user-panic", "websocket-"+panicKind(fmt.Sprint(recMsg.Load())), "RecoverFunc invoked %d time(s): %v\n%s", recovered.Load(), recMsg.Load(), desc())
		return
	}
	for _, f := range got {
		j, err := parsers.ParseJSON([]byte(f))
		if err != nil || j.K != parsers.Obj || j.Get("type") == nil {
			rc.Fail("malformed-server-frame", "websocket", "%q\n%s", f, desc())
			return
		}
	}
	// a start on an initialised connection is answered or the connection is closed
	if sendInit && !wasClosed {
		for _, m := range sent {
			if !m.Op {
				break // later messages may have closed or confused the session: only the prefix of starts is judged
			}
			answered := false
			for _, f := range got {
				var x struct {
					Type string `json:"type"`
					ID   string `json:"id"`
				}
				json.Unmarshal([]byte(f), &x)
				if x.ID == "1" {
					answered = true
				}
			}
			if !answered {
				rc.Fail("start-unanswered", "websocket", "message %s got neither a frame for its id nor a close\n%s", m.Name, desc())
				return
			}
		}
	}
	if leaks := core.Leaks(); len(leaks) > 0 {
		rc.Fail("goroutine-left-behind", leaks[0].TopSUTFrame(), "after the websocket session ended\n%s\n%s", leaks[0].Raw, desc())
		return
	}
	w.Count("transport_websocket")
	for _, m := range sent {
		w.Count("wsmsg_" + m.Name)
	}
	rc.Res.Nontrivial = true
	rc.Res.Sig = execsim.SigOf("ws", proto, fmt.Sprint(script))
	rc.Res.Sample = map[string]any{"transport": "websocket " + proto, "script": script, "frames": got}
}

func panicKind(d string) string {
	switch {
	case contains(d, "nil pointer"):
		return "nil-dereference"
	case contains(d, "index out of range"):
		return "index-out-of-range"
	case contains(d, "interface conversion"):
		return "interface-conversion"
	}
	return "other-panic"
}

func contains(s, sub string) bool {
	for i := 0; i+len(sub) <= len(s); i++ {
		if s[i:i+len(sub)] == sub {
			return true
		}
	}
	return false
}
