package apqsim

import "github.com/vektah/gqlparser/v2/ast"

type astDoc = ast.QueryDocument
