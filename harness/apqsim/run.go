// Package apqsim is the automatic-persisted-query simulation for C15: request histories over a
// small alphabet of query texts and request forms against handler.Server with the APQ extension
// and a harness-owned (or LRU) cache; sequential histories are checked step by step against a
// three-line model, overlapped ones with porcupine.
package apqsim

import (
	"bytes"
	"context"
	"crypto/sha256"
	"encoding/hex"
	"encoding/json"
	"fmt"
	"net/http/httptest"
	"net/url"
	"reflect"
	"sort"
	"strings"
	"sync"
	"testing/synctest"
	"time"

	"github.com/99designs/gqlgen/graphql"
	"github.com/99designs/gqlgen/graphql/handler"
	"github.com/99designs/gqlgen/graphql/handler/extension"
	"github.com/99designs/gqlgen/graphql/handler/lru"
	"github.com/99designs/gqlgen/graphql/handler/transport"
	"github.com/anishathalye/porcupine"

	"verifsim/core"
	"verifsim/execsim"
	"verifsim/parsers"
	"verifsim/probereg"
	"verifsim/refexec"
	"verifsim/uni"
)

// query texts; the last four are twins that differ only in whitespace inside a string literal or
// in the letter case of an alias - texts a careless cache key could confuse
var texts = []string{`{ hello }`, `{ maybe }`, `{ me { id } }`, `{ users { id } }`,
	`{ echo(b:"a b") }`, `{ echo(b:"a  b") }`, `{ k: hello }`, `{ K: hello }`}

func hashOf(s string) string {
	b := sha256.Sum256([]byte(s))
	return hex.EncodeToString(b[:])
}

type form int

const (
	fTextOnly form = iota
	fTextHash
	fTextWrongHash
	fHashOnly
	fMalformed
	fWrongVersion
	fUnknownHash
	fNoHash         // extension with a version but no hash, no text
	fNoVersion      // extension with the hash but no version, no text
	fNoHashText     // text + extension with a version but no hash: refused, registers nothing
	fBlankTextHash  // white-space-only text + the hash of another text: refused (not a hash-only request)
	fPaddedTextHash // text with leading/trailing white space + the hash of exactly those bytes: executes
	fBadJSON        // a body that is not JSON (POST) / an extensions parameter that is not JSON (GET): refused
	fTextLongHash   // text + a hash that STARTS with the text's digest but is longer: refused, registers nothing
	fBadEscapeHash  // GET: a query parameter with a malformed %-escape + the hash of another text: refused (POST: text + wrong hash)
	numForms
)

func (f form) String() string {
	return [...]string{"text", "text+hash", "text+wrong-hash", "hash-only", "malformed-ext", "wrong-version", "unknown-hash-only", "no-hash", "no-version", "text+no-hash", "blank-text+hash", "padded-text+hash", "bad-json", "text+long-hash", "bad-escape+hash"}[f]
}

type op struct {
	Form form
	Text int // text sent (or whose hash is sent for hash-only)
	Hash int // for text+wrong-hash: the text whose hash is sent
	Get  bool
	// Plain: the request goes to a second server that has NO persisted-query extension but shares
	// the document cache with the first (text-carrying forms only): the extension is ignored there
	Plain bool
}

func (o op) String() string { return fmt.Sprintf("%s(t%d,h%d,get=%v)", o.Form, o.Text, o.Hash, o.Get) }

type outcome struct {
	Kind string // exec | notfound | rejected | other
	Text int
	Raw  string
}

type simCache struct {
	w    *core.World
	mu   sync.Mutex
	m    map[string]string
	park bool
	drop func() bool
}

type reqKey struct{}

func (c *simCache) Get(ctx context.Context, key string) (string, bool) {
	if c.park {
		c.w.Park("apq-get", fmt.Sprint(ctx.Value(reqKey{})), nil)
	}
	c.mu.Lock()
	defer c.mu.Unlock()
	v, ok := c.m[key]
	return v, ok
}

func (c *simCache) Add(ctx context.Context, key string, v string) {
	if c.park {
		c.w.Park("apq-add", fmt.Sprint(ctx.Value(reqKey{})), nil)
	}
	if c.drop != nil && c.drop() {
		c.w.Count("adds_dropped")
		return
	}
	c.mu.Lock()
	c.m[key] = v
	c.mu.Unlock()
}

func (c *simCache) snapshot() map[string]string {
	c.mu.Lock()
	defer c.mu.Unlock()
	out := map[string]string{}
	for k, v := range c.m {
		out[k] = v
	}
	return out
}

// expected[i] is the canonical data a fresh server returns for texts[i] (computed per run).
func classify(body string, expected []string) outcome {
	j, err := parsers.ParseJSON([]byte(body))
	if err != nil || j.K != parsers.Obj {
		return outcome{Kind: "other", Raw: body}
	}
	if d := j.Get("data"); d != nil && d.K == parsers.Obj && len(d.Keys) > 0 {
		c := d.Canon()
		for i, e := range expected {
			if c == e {
				return outcome{Kind: "exec", Text: i, Raw: body}
			}
		}
		return outcome{Kind: "other", Raw: body}
	}
	if es := j.Get("errors"); es != nil && es.K == parsers.Arr && len(es.A) > 0 {
		if m := es.A[0].Get("message"); m != nil && m.S == "PersistedQueryNotFound" {
			return outcome{Kind: "notfound", Raw: body}
		}
		return outcome{Kind: "rejected", Raw: body}
	}
	return outcome{Kind: "other", Raw: body}
}

// step is the sequential model: state is the set of registered texts (bitmask).
func step(state int, o op, out outcome) (bool, int) {
	if o.Plain {
		// no persisted-query extension on that server: the text is executed, nothing is registered
		return out.Kind == "exec" && out.Text == o.Text, state
	}
	switch o.Form {
	case fTextOnly:
		return out.Kind == "exec" && out.Text == o.Text, state
	case fTextHash:
		return out.Kind == "exec" && out.Text == o.Text, state | 1<<o.Text
	case fTextWrongHash, fMalformed, fWrongVersion, fNoHashText, fBlankTextHash, fBadJSON, fTextLongHash, fBadEscapeHash:
		return out.Kind == "rejected", state
	case fPaddedTextHash:
		// registers the padded bytes under their own hash, which no other form asks for
		return out.Kind == "exec" && out.Text == o.Text, state
	case fHashOnly:
		if out.Kind == "notfound" {
			return true, state // eviction is always legal
		}
		return out.Kind == "exec" && out.Text == o.Text && state&(1<<o.Text) != 0, state
	case fUnknownHash, fNoHash:
		// no usable hash and no text: nothing can be looked up
		return out.Kind == "notfound" || out.Kind == "rejected", state
	case fNoVersion:
		return out.Kind == "rejected", state
	}
	return false, state
}

type pin struct {
	O op
}

var model = porcupine.Model{
	Init: func() interface{} { return 0 },
	Step: func(state, input, output interface{}) (bool, interface{}) {
		ok, ns := step(state.(int), input.(op), output.(outcome))
		return ok, ns
	},
	DescribeOperation: func(input, output interface{}) string {
		return fmt.Sprintf("%v -> %s/%d", input.(op), output.(outcome).Kind, output.(outcome).Text)
	},
}

// Run is the scenario body.
func Run(rc *core.RunCtx) {
	t := rc.Tape
	w := rc.W
	v := &probereg.Core[t.Choose(len(probereg.Core), "variant")]
	plan := &refexec.Plan{Seed: 7, MaxList: 1}
	u := uni.New(w, v, plan)
	u.Park = false
	v.SetBlobHook(nil)
	u.Custom = map[string]func(ctx context.Context, args []reflect.Value) (any, error){
		"Query.echo": func(ctx context.Context, args []reflect.Value) (any, error) {
			b := args[1]
			if b.Kind() == reflect.Ptr {
				return b.Interface(), nil
			}
			p := reflect.New(b.Type())
			p.Elem().Set(b)
			return p.Interface(), nil
		},
	}
	// what each text answers on a server without any cache
	expected := make([]string, len(texts))
	{
		plain := handler.New(u.ES)
		plain.AddTransport(transport.POST{})
		for i, q := range texts {
			b, _ := json.Marshal(map[string]any{"query": q})
			rw := httptest.NewRecorder()
			hr := httptest.NewRequest("POST", "/query", bytes.NewReader(b))
			hr.Header.Set("Content-Type", "application/json")
			plain.ServeHTTP(rw, hr)
			if j, err := parsers.ParseJSON(rw.Body.Bytes()); err == nil && j.Get("data") != nil {
				expected[i] = j.Get("data").Canon()
			}
		}
	}
	srv := handler.New(u.ES)
	srv.AddTransport(transport.GET{})
	srv.AddTransport(transport.POST{})
	cacheKind := t.Choose(3, "cache") // 0 parking sim cache, 1 sim cache, 2 lru
	var sc *simCache
	if cacheKind < 2 {
		sc = &simCache{w: w, m: map[string]string{}, park: cacheKind == 0}
		if t.Bool(1, 3, "dropadds") {
			sc.drop = func() bool { return t.Bool(1, 4, "drop") }
		}
		srv.Use(extension.AutomaticPersistedQuery{Cache: sc})
	} else {
		srv.Use(extension.AutomaticPersistedQuery{Cache: lru.New[string](1 + t.Choose(3, "lrusize"))})
	}
	// a second server without the extension, sharing the document cache (if any) with the first
	srv2 := handler.New(u.ES)
	srv2.AddTransport(transport.GET{})
	srv2.AddTransport(transport.POST{})
	if t.Bool(2, 3, "qcache") {
		qc := lru.New[*graphqlDoc]([]int{2, 8}[t.Choose(2, "qcache-size")])
		srv.SetQueryCache(qc)
		srv2.SetQueryCache(qc)
	}
	maxN := 10
	if rc.Tier == "thorough" {
		maxN = 30
	}
	n := 1 + t.Choose(maxN, "n")
	overlapped := cacheKind == 0 && t.Bool(3, 4, "overlap")
	if overlapped && n > 12 {
		n = 12
	}
	// one history in four stays within one pair of twin texts
	twinMode := t.Bool(1, 4, "twin-mode")
	twinBase := 4 + 2*t.Choose(2, "twin-pair")
	opsList := make([]op, n)
	for i := range opsList {
		o := op{Form: form(t.Choose(int(numForms), "form")), Text: t.Choose(len(texts), "text")}
		if twinMode {
			o.Text = twinBase + t.Choose(2, "twin")
		}
		o.Hash = o.Text
		if o.Form == fTextWrongHash {
			o.Hash = (o.Text + 1 + t.Choose(len(texts)-1, "other")) % len(texts)
			if twinMode {
				o.Hash = twinBase + (1 - (o.Text - twinBase)) // the twin's hash
			}
		}
		o.Get = t.Bool(1, 3, "get")
		// bias hash-only requests towards texts registered earlier in the history, so that
		// cache hits (the interesting case) are frequent
		if o.Form == fHashOnly && t.Bool(2, 3, "prefer-registered") {
			for j := i - 1; j >= 0; j-- {
				if opsList[j].Form == fTextHash || opsList[j].Form == fTextWrongHash {
					o.Text = opsList[j].Hash
					o.Hash = o.Text
					break
				}
			}
		}
		if (o.Form == fTextOnly || o.Form == fTextHash || o.Form == fTextWrongHash) && t.Bool(1, 6, "plain-server") {
			o.Plain = true
		}
		if o.Form == fBadEscapeHash {
			o.Hash = (o.Text + 1 + t.Choose(len(texts)-1, "other2")) % len(texts)
			for j := i - 1; j >= 0; j-- {
				if opsList[j].Form == fTextHash && opsList[j].Text != o.Text {
					o.Hash = opsList[j].Text
					break
				}
			}
		}
		if o.Form == fBlankTextHash {
			// the hash of a text registered earlier in the history, when there is one
			for j := i - 1; j >= 0; j-- {
				if opsList[j].Form == fTextHash {
					o.Hash = opsList[j].Text
					break
				}
			}
		}
		opsList[i] = o
	}

	results := make([]outcome, n)
	doneCh := make([]chan struct{}, n)
	callT := make([]int64, n)
	retT := make([]int64, n)
	launch := func(i int) {
		doneCh[i] = make(chan struct{})
		o := opsList[i]
		ctx := context.WithValue(context.Background(), reqKey{}, fmt.Sprintf("r%d", i))
		var ext map[string]any
		query := texts[o.Text]
		switch o.Form {
		case fTextOnly:
		case fTextHash:
			ext = map[string]any{"persistedQuery": map[string]any{"version": 1, "sha256Hash": hashOf(texts[o.Text])}}
		case fTextWrongHash:
			ext = map[string]any{"persistedQuery": map[string]any{"version": 1, "sha256Hash": hashOf(texts[o.Hash])}}
		case fHashOnly:
			query = ""
			ext = map[string]any{"persistedQuery": map[string]any{"version": 1, "sha256Hash": hashOf(texts[o.Text])}}
		case fUnknownHash:
			query = ""
			ext = map[string]any{"persistedQuery": map[string]any{"version": 1, "sha256Hash": hashOf("never sent " + texts[o.Text])}}
		case fNoHash:
			query = ""
			ext = map[string]any{"persistedQuery": map[string]any{"version": 1}}
		case fNoVersion:
			query = ""
			ext = map[string]any{"persistedQuery": map[string]any{"sha256Hash": hashOf(texts[o.Text])}}
		case fTextLongHash:
			ext = map[string]any{"persistedQuery": map[string]any{"version": 1, "sha256Hash": hashOf(texts[o.Text]) + []string{"00", hashOf(texts[o.Hash]), "zz"}[o.Text%3]}}
		case fBadEscapeHash:
			ext = map[string]any{"persistedQuery": map[string]any{"version": 1, "sha256Hash": hashOf(texts[o.Hash])}}
		case fNoHashText:
			if o.Text%2 == 0 {
				ext = map[string]any{"persistedQuery": map[string]any{"version": 1}}
			} else {
				ext = map[string]any{"persistedQuery": map[string]any{"version": 1, "sha256Hash": ""}}
			}
		case fBlankTextHash:
			query = []string{" ", "\n", " \t\n "}[o.Text%3]
			ext = map[string]any{"persistedQuery": map[string]any{"version": 1, "sha256Hash": hashOf(texts[o.Hash])}}
		case fPaddedTextHash:
			query = []string{" ", "\n"}[o.Text%2] + texts[o.Text] + []string{"\n", "  "}[o.Hash%2]
			ext = map[string]any{"persistedQuery": map[string]any{"version": 1, "sha256Hash": hashOf(query)}}
		case fMalformed:
			if o.Text%2 == 0 {
				ext = map[string]any{"persistedQuery": "not-an-object"}
			} else {
				ext = map[string]any{"persistedQuery": map[string]any{"version": "x", "sha256Hash": []int{1}}}
			}
		case fWrongVersion:
			ext = map[string]any{"persistedQuery": map[string]any{"version": 2, "sha256Hash": hashOf(texts[o.Text])}}
		}
		go func() {
			defer close(doneCh[i])
			rw := httptest.NewRecorder()
			if o.Get {
				q := url.Values{}
				if query != "" {
					q.Set("query", query)
				}
				if ext != nil {
					b, _ := json.Marshal(ext)
					q.Set("extensions", string(b))
				}
				target := "/query?" + q.Encode()
				if o.Form == fBadJSON {
					target = "/query?query=" + url.QueryEscape(query) + "&extensions=%7Bnot-json"
				}
				if o.Form == fBadEscapeHash {
					b, _ := json.Marshal(ext)
					target = "/query?query=" + []string{"%zz", "%2", "a;b%"}[o.Text%3] + url.QueryEscape(query) + "&extensions=" + url.QueryEscape(string(b))
				}
				hr := httptest.NewRequest("GET", target, nil).WithContext(ctx)
				if o.Plain {
					srv2.ServeHTTP(rw, hr)
				} else {
					srv.ServeHTTP(rw, hr)
				}
			} else {
				m := map[string]any{"query": query}
				if ext != nil {
					m["extensions"] = ext
				}
				b, _ := json.Marshal(m)
				if o.Form == fBadJSON {
					b = b[:len(b)-1-o.Text%3] // cut off: not JSON
				}
				hr := httptest.NewRequest("POST", "/query", bytes.NewReader(b)).WithContext(ctx)
				hr.Header.Set("Content-Type", "application/json")
				if o.Plain {
					srv2.ServeHTTP(rw, hr)
				} else {
					srv.ServeHTTP(rw, hr)
				}
			}
			results[i] = classify(rw.Body.String(), expected)
		}()
	}
	isDone := func(i int) bool {
		select {
		case <-doneCh[i]:
			return true
		default:
			return false
		}
	}
	checkCache := func() bool {
		if sc == nil {
			return true
		}
		for k, val := range sc.snapshot() {
			if hashOf(val) != k {
				rc.Fail("cache-binds-hash-to-other-text", "cache", "cache entry %s holds %q whose hash is %s", k, val, hashOf(val))
				return false
			}
		}
		return true
	}
	next := 0
	stepNo := int64(0)
	maxOverlap := 0
	for guard := 0; guard < 4000; guard++ {
		synctest.Wait()
		w.NextStep()
		stepNo++
		inflight := 0
		for i := 0; i < next; i++ {
			if isDone(i) {
				if retT[i] == 0 {
					retT[i] = 2*stepNo + 1
				}
			} else {
				inflight++
			}
		}
		if inflight > maxOverlap {
			maxOverlap = inflight
		}
		if !checkCache() {
			return
		}
		if next >= n && inflight == 0 {
			break
		}
		items := w.Parked()
		type action struct {
			kind string
			it   *core.Item
			key  string
		}
		var acts []action
		for _, it := range items {
			acts = append(acts, action{kind: "release", it: it})
		}
		if next < n && (inflight == 0 || overlapped && inflight < 3) {
			acts = append(acts, action{kind: "launch"})
			if overlapped && n-next >= 2 && inflight == 0 {
				acts = append(acts, action{kind: "launch2"}) // two requests truly simultaneous
			}
		}
		if sc != nil {
			snap := sc.snapshot()
			var ks []string
			for k := range snap {
				ks = append(ks, k)
			}
			sort.Strings(ks)
			for _, k := range ks {
				if t.Bool(1, 8, "evict?") {
					acts = append(acts, action{kind: "evict", key: k})
				}
			}
		}
		if len(acts) == 0 {
			site, dump := core.StuckSite()
			rc.Fail("stuck", site, "requests in flight but nothing enabled\n%s", dump)
			return
		}
		a := acts[t.Choose(len(acts), "act")]
		switch a.kind {
		case "release":
			w.Release(a.it, nil)
		case "launch":
			callT[next] = 2 * stepNo
			w.Logf("launch", fmt.Sprint(next), "%v", opsList[next])
			launch(next)
			next++
		case "launch2":
			callT[next], callT[next+1] = 2*stepNo, 2*stepNo
			w.Logf("launch2", fmt.Sprint(next), "%v %v", opsList[next], opsList[next+1])
			launch(next)
			launch(next + 1)
			next += 2
			w.Count("burst_launches")
		case "evict":
			sc.mu.Lock()
			delete(sc.m, a.key)
			sc.mu.Unlock()
			w.Count("evictions")
		}
	}
	// oracle
	hist := func() string {
		var sb strings.Builder
		for i, o := range opsList {
			fmt.Fprintf(&sb, "\n  [%d] call=%d ret=%d %v -> %s/t%d %s", i, callT[i], retT[i], o, results[i].Kind, results[i].Text, firstLine(results[i].Raw))
		}
		return sb.String()
	}
	for i := range opsList {
		w.Count("form_" + opsList[i].Form.String())
		w.Count("outcome_" + results[i].Kind)
		if opsList[i].Form == fHashOnly && results[i].Kind == "exec" {
			w.Count("hash_only_hits")
		}
		if results[i].Kind == "other" {
			rc.Fail("unclassifiable-response", "response", "request %d: %s%s", i, results[i].Raw, hist())
			return
		}
	}
	if maxOverlap <= 1 {
		state := 0
		for i, o := range opsList {
			ok, ns := step(state, o, results[i])
			if !ok {
				rc.Fail("apq-model", modelSite(o, results[i]), "request %d violates the persisted-query model (registered set %04b)%s", i, state, hist())
				return
			}
			state = ns
		}
		w.Count("sequential_histories")
	} else {
		var pops []porcupine.Operation
		for i, o := range opsList {
			pops = append(pops, porcupine.Operation{ClientId: i, Input: o, Call: callT[i], Output: results[i], Return: retT[i]})
		}
		res := porcupine.CheckOperationsTimeout(model, pops, 30*time.Second)
		switch res {
		case porcupine.Illegal:
			rc.Fail("apq-model", "not-linearizable", "overlapped history is not linearizable against the persisted-query model%s", hist())
			return
		case porcupine.Unknown:
			rc.Fail("porcupine-timeout", "harness", "inconclusive")
			return
		}
		w.Count("porcupine_histories")
	}
	rc.Res.Nontrivial = n >= 2
	var sig []string
	for i, o := range opsList {
		sig = append(sig, fmt.Sprintf("%v>%s%d", o, results[i].Kind, results[i].Text))
	}
	rc.Res.Sig = execsim.SigOf(cacheKind, strings.Join(sig, ";"), w.LogHash())
	rc.Res.Sample = map[string]any{"cache": []string{"parking harness cache", "harness cache", "lru"}[cacheKind], "overlapped": maxOverlap > 1, "history": sig}
}

func modelSite(o op, out outcome) string {
	return o.Form.String() + "->" + out.Kind
}

func firstLine(s string) string {
	if len(s) > 160 {
		return s[:160] + "…"
	}
	return s
}

type graphqlDoc = astDoc

var _ graphql.Cache[string] = (*simCache)(nil)
