// Package uni is the reflective universal resolver: it fills every func field of a stubgen Stub
// (and the @guard directive) with a function that logs, parks at the scheduler and then returns
// what the plan says for the response path of the call.
package uni

import (
	"context"
	"errors"
	"fmt"
	"reflect"
	"sort"
	"strconv"
	"strings"
	"sync"
	"sync/atomic"

	"github.com/99designs/gqlgen/graphql"
	"github.com/vektah/gqlparser/v2/ast"
	"github.com/vektah/gqlparser/v2/gqlerror"

	"verifsim/core"
	"verifsim/parsers"
	"verifsim/refexec"
)

// Variant is one generated probe package (registered by the orchestrator-generated probereg).
type Variant struct {
	Name        string
	NewStub     func() any
	Build       func(stub any, guard func(ctx context.Context, obj any, next graphql.Resolver, tag *string) (any, error), stamp func(ctx context.Context, obj any, next graphql.Resolver) (any, error)) graphql.ExecutableSchema
	Models      map[string]reflect.Type
	Abstract    map[string]reflect.Type
	SetBlobHook func(func(op, s string) error)
	// SetMethodHook installs what the method-backed fields of hand-written models return.
	SetMethodHook func(func(ctx context.Context, typ, field string) (*string, error))
}

// CtxMode says how resolvers react to a cancelled context once released.
type CtxMode int

const (
	IgnoreCancel CtxMode = iota
	ReturnCtxErr
)

type Uni struct {
	W       *core.World
	Plan    *refexec.Plan
	Schema  *ast.Schema
	V       *Variant
	Park    bool // park resolver calls
	ParkDir bool // park directive calls
	Ctx     CtxMode
	// Stream is called for subscription source fields; it must return a value assignable to
	// the resolver's channel result type (or an error).
	Stream func(ctx context.Context, path string, chanType reflect.Type, fd *ast.FieldDefinition) (reflect.Value, error)
	// Custom overrides the plan for specific fields ("Type.field"): used for upload resolvers.
	Custom map[string]func(ctx context.Context, args []reflect.Value) (any, error)
	// KeyPrefix distinguishes concurrent requests: it is prepended to park and log keys.
	KeyPrefix func(ctx context.Context) string
	// OnCall observes every resolver/directive invocation before it parks.
	OnCall func(ctx context.Context, kind, path string)

	// PanicsThrown counts the panics raised by resolvers and the directive on behalf of the plan.
	PanicsThrown atomic.Int32

	// sentinel: failing resolvers at some positions (plan.SharedErr) return ONE error value
	// shared by all of them (var ErrNotFound = gqlerror.Errorf(...) as user code writes it),
	// fresh per server so that runs stay independent
	sentinel *gqlerror.Error

	rmu       sync.Mutex
	raised    []refexec.Err
	typedNils []string // response paths at which a typed nil pointer was delivered

	bind    map[string]refexec.Binding
	retType map[string]reflect.Type
	Stub    any
	ES      graphql.ExecutableSchema
}

func lookupField(def *ast.Definition, goName string) *ast.FieldDefinition {
	for _, f := range def.Fields {
		if strings.EqualFold(strings.ReplaceAll(f.Name, "_", ""), strings.ReplaceAll(goName, "_", "")) {
			return f
		}
	}
	return nil
}

func nilable(t reflect.Type) bool {
	switch t.Kind() {
	case reflect.Ptr, reflect.Interface, reflect.Slice, reflect.Map, reflect.Chan:
		return true
	}
	return false
}

// New builds the executable schema of variant v with every resolver bound to the plan.
func New(w *core.World, v *Variant, plan *refexec.Plan) *Uni {
	u := &Uni{W: w, V: v, Plan: plan, Park: true, bind: map[string]refexec.Binding{}, retType: map[string]reflect.Type{}}
	u.sentinel = gqlerror.Errorf("S:shared")
	u.Stub = v.NewStub()
	u.ES = v.Build(u.Stub, u.Guard, u.Stamp)
	u.Schema = u.ES.Schema()
	sv := reflect.ValueOf(u.Stub).Elem()
	for i := 0; i < sv.NumField(); i++ {
		sf := sv.Type().Field(i)
		if !strings.HasSuffix(sf.Name, "Resolver") || sf.Type.Kind() != reflect.Struct {
			continue
		}
		objType := strings.TrimSuffix(sf.Name, "Resolver")
		def := u.Schema.Types[objType]
		if def == nil {
			panic("uni: no schema type for " + sf.Name)
		}
		rs := sv.Field(i)
		for j := 0; j < rs.NumField(); j++ {
			ff := rs.Type().Field(j)
			if ff.Type.Kind() != reflect.Func {
				continue
			}
			fd := lookupField(def, ff.Name)
			if fd == nil {
				panic("uni: no schema field for " + sf.Name + "." + ff.Name)
			}
			ft := ff.Type
			out0 := ft.Out(0)
			b := refexec.Binding{Resolver: true, Nilable: nilable(out0), Directive: fd.Directives.ForName("guard") != nil, Stamp: fd.Directives.ForName("stamp") != nil, TypeStamp: u.Schema.Types[fd.Type.Name()].Directives.ForName("stamp") != nil}
			if fd.Type.Elem != nil && fd.Type.NonNull {
				// model parameter P2: gqlgen serialises a nil slice at a non-null list position
				// as [] without error, so plans never ask for null there
				b.Nilable = false
			}
			if out0.Kind() == reflect.Slice {
				b.ElemNilable = nilable(out0.Elem())
			}
			key := objType + "." + fd.Name
			u.bind[key] = b
			u.retType[key] = out0
			objTypeC, fdC := objType, fd
			rs.Field(j).Set(reflect.MakeFunc(ft, func(args []reflect.Value) []reflect.Value {
				return u.call(objTypeC, fdC, ft, args)
			}))
		}
	}
	// struct-backed fields
	for name, mt := range v.Models {
		def := u.Schema.Types[name]
		for _, fd := range def.Fields {
			key := name + "." + fd.Name
			if _, ok := u.bind[key]; ok {
				continue
			}
			if m, isMethod := reflect.PointerTo(mt).MethodByName(strings.ToUpper(fd.Name[:1]) + fd.Name[1:]); isMethod && m.Type.NumIn() == 2 {
				// method-backed (takes a context): called like a resolver, answered by the plan
				u.bind[key] = refexec.Binding{Resolver: true, Nilable: true}
				continue
			}
			sf, ok := mt.FieldByNameFunc(func(n string) bool { return strings.EqualFold(n, fd.Name) })
			if !ok {
				panic("uni: no struct field for " + key)
			}
			u.bind[key] = refexec.Binding{Nilable: nilable(sf.Type)}
		}
	}
	if v.SetMethodHook != nil {
		v.SetMethodHook(u.method)
	}
	return u
}

// method answers a method-backed field of a hand-written model (string-valued) from the plan.
func (u *Uni) method(ctx context.Context, typ, field string) (*string, error) {
	fc := graphql.GetFieldContext(ctx)
	path := fc.Path().String()
	if u.OnCall != nil {
		u.OnCall(ctx, "res", path)
	}
	key := path
	if u.KeyPrefix != nil {
		key = u.KeyPrefix(ctx) + path
	}
	u.W.Logf("call", key, "")
	if u.Park {
		if _, killed := u.W.Park("res", key, ctx).(core.Kill); killed {
			return nil, ErrKilled
		}
	}
	u.W.Logf("return", key, "")
	if u.Ctx == ReturnCtxErr && ctx.Err() != nil {
		return nil, ctx.Err()
	}
	switch u.Plan.Resolver(path, true) {
	case refexec.KError:
		if u.Plan.SharedErr(path) {
			u.raise(path, "S:shared")
			return nil, u.sentinel
		}
		u.raise(path, u.Plan.ErrMsg(path))
		return nil, errors.New(u.Plan.ErrMsg(path))
	case refexec.KPanic:
		u.PanicsThrown.Add(1)
		u.raise(path, u.Plan.PanicMsg(path))
		panic(u.Plan.PanicMsg(path))
	case refexec.KNull:
		return nil, nil
	case refexec.KAddErrNull:
		u.raise(path, u.Plan.ErrMsg(path))
		graphql.AddError(ctx, errors.New(u.Plan.ErrMsg(path)))
		if u.Park {
			if _, killed := u.W.Park("res-post", key, ctx).(core.Kill); killed {
				return nil, ErrKilled
			}
		}
		return nil, nil
	}
	s := u.Plan.Scalar(path, "String").S
	return &s, nil
}

func (u *Uni) Binding(objType, field string) refexec.Binding {
	b, ok := u.bind[objType+"."+field]
	if !ok {
		panic("uni: no binding for " + objType + "." + field)
	}
	return b
}

func (u *Uni) Env() *refexec.Env {
	return &refexec.Env{Schema: u.Schema, Plan: u.Plan, Binding: u.Binding}
}

var errType = reflect.TypeOf((*error)(nil)).Elem()

func retErr(ft reflect.Type, err error) []reflect.Value {
	out := []reflect.Value{reflect.Zero(ft.Out(0)), reflect.Zero(errType)}
	if err != nil {
		out[1] = reflect.ValueOf(err).Convert(errType)
	}
	return out
}

// ErrKilled is returned by resolvers released at the end of a run.
var ErrKilled = errors.New("killed")

// Interceptor is a handler extension whose field and root-field interceptors fail where the plan
// says so (before calling next), and pass everything else through.
type Interceptor struct{ U *Uni }

func (Interceptor) ExtensionName() string                          { return "SimInterceptor" }
func (Interceptor) Validate(schema graphql.ExecutableSchema) error { return nil }

func (x Interceptor) InterceptField(ctx context.Context, next graphql.Resolver) (any, error) {
	u := x.U
	if len(u.Plan.IcptFaults) > 0 {
		path := graphql.GetFieldContext(ctx).Path().String()
		switch u.Plan.IcptFaults[path] {
		case refexec.KError:
			u.raise(path, "I:error")
			return nil, errors.New("I:error")
		case refexec.KPanic:
			u.PanicsThrown.Add(1)
			u.raise(path, "I:panic")
			panic("I:panic")
		}
	}
	return next(ctx)
}

func (x Interceptor) InterceptRootField(ctx context.Context, next graphql.RootResolver) graphql.Marshaler {
	u := x.U
	if len(u.Plan.RootIcptPanics) > 0 {
		if rc := graphql.GetRootFieldContext(ctx); rc != nil && u.Plan.RootIcptPanics[rc.Field.Alias] {
			u.PanicsThrown.Add(1)
			u.raise(rc.Field.Alias, "R:panic")
			panic("R:panic")
		}
	}
	return next(ctx)
}

// raise records a failure that user code (resolver or directive) really produced at path.
func (u *Uni) raise(path, msg string) {
	u.rmu.Lock()
	u.raised = append(u.raised, refexec.Err{Path: path, Class: refexec.ClassOf(msg)})
	u.rmu.Unlock()
}

func (u *Uni) noteTypedNil(path string) {
	u.rmu.Lock()
	u.typedNils = append(u.typedNils, path)
	u.rmu.Unlock()
}

// TypedNils returns the response paths at which a typed nil pointer stood for null.
func (u *Uni) TypedNils() map[string]bool {
	u.rmu.Lock()
	defer u.rmu.Unlock()
	out := map[string]bool{}
	for _, p := range u.typedNils {
		out[p] = true
	}
	return out
}

// Raised returns the failures user code produced so far: each is an originating failure that
// the response must report.
func (u *Uni) Raised() []refexec.Err {
	u.rmu.Lock()
	defer u.rmu.Unlock()
	return append([]refexec.Err(nil), u.raised...)
}

// ResetRaised forgets the recorded failures (between executions on one server).
func (u *Uni) ResetRaised() {
	u.rmu.Lock()
	u.raised = nil
	u.rmu.Unlock()
}

func (u *Uni) call(objType string, fd *ast.FieldDefinition, ft reflect.Type, args []reflect.Value) []reflect.Value {
	ctx := args[0].Interface().(context.Context)
	fc := graphql.GetFieldContext(ctx)
	path := fc.Path().String()
	if u.OnCall != nil {
		u.OnCall(ctx, "res", path)
	}
	key := path
	if u.KeyPrefix != nil {
		key = u.KeyPrefix(ctx) + path
	}
	u.W.Logf("call", key, "")
	if u.Park {
		if _, killed := u.W.Park("res", key, ctx).(core.Kill); killed {
			return retErr(ft, ErrKilled)
		}
	}
	u.W.Logf("return", key, "")
	if u.Ctx == ReturnCtxErr && ctx.Err() != nil {
		return retErr(ft, ctx.Err())
	}
	// resolvers own their arguments: code that normalises an input in place is legal. Write
	// every pointer argument back to itself (a write the race detector sees if the value is
	// shared with another call)
	first := 2 // args[0] is the context, args[1] the parent object (shared by its fields: not ours)
	if objType == u.Schema.Query.Name || (u.Schema.Mutation != nil && objType == u.Schema.Mutation.Name) || (u.Schema.Subscription != nil && objType == u.Schema.Subscription.Name) {
		first = 1
	}
	for _, a := range args[first:] {
		if a.Kind() == reflect.Ptr && !a.IsNil() && a.Elem().CanSet() {
			a.Elem().Set(reflect.ValueOf(a.Elem().Interface()))
		}
	}
	out0 := ft.Out(0)
	if f := u.Custom[objType+"."+fd.Name]; f != nil {
		v, err := f(ctx, args)
		if err != nil {
			return retErr(ft, err)
		}
		return []reflect.Value{reflect.ValueOf(v).Convert(out0), reflect.Zero(errType)}
	}
	if out0.Kind() == reflect.Chan {
		if u.Stream == nil {
			return retErr(ft, errors.New("no stream source"))
		}
		v, err := u.Stream(ctx, path, out0, fd)
		if err != nil {
			return retErr(ft, err)
		}
		return []reflect.Value{v, reflect.Zero(errType)}
	}
	b := u.bind[objType+"."+fd.Name]
	switch u.Plan.Resolver(path, b.Nilable) {
	case refexec.KError:
		if u.Plan.SharedErr(path) {
			u.raise(path, "S:shared")
			return retErr(ft, u.sentinel)
		}
		u.raise(path, u.Plan.ErrMsg(path))
		return retErr(ft, errors.New(u.Plan.ErrMsg(path)))
	case refexec.KPanic:
		u.PanicsThrown.Add(1)
		u.raise(path, u.Plan.PanicMsg(path))
		panic(u.Plan.PanicMsg(path))
	case refexec.KNull:
		if out0.Kind() == reflect.Interface && u.Plan.TypedNil(path) {
			// "null" as Go code often produces it at an interface position: a typed nil pointer
			// (return findUser(id), nil) - a non-nil interface value holding a nil *User
			if mt, ok := u.V.Models["User"]; ok && reflect.PointerTo(mt).Implements(out0) {
				u.noteTypedNil(path)
				return []reflect.Value{reflect.Zero(reflect.PointerTo(mt)).Convert(out0), reflect.Zero(errType)}
			}
		}
		return retErr(ft, nil)
	case refexec.KAddErrNull:
		u.raise(path, u.Plan.ErrMsg(path))
		graphql.AddError(ctx, errors.New(u.Plan.ErrMsg(path)))
		// a second seam between recording the error and returning nil: sibling failures can be
		// scheduled into this window
		if u.Park {
			if _, killed := u.W.Park("res-post", key, ctx).(core.Kill); killed {
				return retErr(ft, ErrKilled)
			}
		}
		return retErr(ft, nil)
	}
	v := u.Build(out0, fd.Type, path)
	return []reflect.Value{v, reflect.Zero(errType)}
}

// Guard is the @guard directive implementation.
func (u *Uni) Guard(ctx context.Context, obj any, next graphql.Resolver, tag *string) (any, error) {
	fc := graphql.GetFieldContext(ctx)
	path := fc.Path().String()
	if u.OnCall != nil {
		u.OnCall(ctx, "dir", path)
	}
	key := path
	if u.KeyPrefix != nil {
		key = u.KeyPrefix(ctx) + path
	}
	u.W.Logf("dir", key, "")
	if u.ParkDir {
		if _, killed := u.W.Park("dir", key, ctx).(core.Kill); killed {
			return nil, ErrKilled
		}
	}
	switch u.Plan.Directive(path) {
	case refexec.DBlock:
		return nil, nil
	case refexec.DError:
		u.raise(path, u.Plan.DirErrMsg(path))
		return nil, errors.New(u.Plan.DirErrMsg(path))
	case refexec.DPanic:
		u.PanicsThrown.Add(1)
		u.raise(path, u.Plan.PanicMsg(path+"@guard"))
		panic(u.Plan.PanicMsg(path + "@guard"))
	case refexec.DReplace:
		rt := u.retType[fc.Object+"."+fc.Field.Name]
		v := reflect.New(rt).Elem()
		setScalar(v, parsers.NewNum(refexec.ReplaceInt))
		return v.Interface(), nil
	case refexec.DPassThenError:
		_, err := next(ctx)
		if err != nil {
			return nil, err
		}
		u.raise(path, u.Plan.DirErrMsg(path))
		return nil, errors.New(u.Plan.DirErrMsg(path))
	}
	return next(ctx)
}

// Stamp is the second field directive of the probe: it lets the rest of the chain run and then
// marks the value (ints +1000, strings get a trailing "~"), so that the order in which a field's
// directives wrap each other is visible in the response.
func (u *Uni) Stamp(ctx context.Context, obj any, next graphql.Resolver) (any, error) {
	v, err := next(ctx)
	if err != nil || v == nil {
		return v, err
	}
	switch x := v.(type) {
	case int:
		return x + refexec.StampInt, nil
	case *int:
		if x == nil {
			return v, nil
		}
		n := *x + refexec.StampInt
		return &n, nil
	case string:
		return x + refexec.StampStr, nil
	case *string:
		if x == nil {
			return v, nil
		}
		s := *x + refexec.StampStr
		return &s, nil
	}
	return v, nil
}

func setScalar(v reflect.Value, j *parsers.J) {
	switch v.Kind() {
	case reflect.Ptr:
		p := reflect.New(v.Type().Elem())
		setScalar(p.Elem(), j)
		v.Set(p)
	case reflect.String:
		if j.K == parsers.Str {
			v.SetString(j.S)
		} else {
			v.SetString(j.Canon())
		}
	case reflect.Int, reflect.Int32, reflect.Int64:
		n, _ := strconv.ParseInt(j.N, 10, 64)
		v.SetInt(n)
	case reflect.Float64:
		n, _ := strconv.ParseFloat(j.N, 64)
		v.SetFloat(n)
	case reflect.Bool:
		v.SetBool(j.B)
	case reflect.Struct:
		// the probe's custom scalar: struct{ S string }
		v.FieldByName("S").SetString(j.S)
	default:
		panic(fmt.Sprintf("uni: cannot set scalar of kind %s", v.Kind()))
	}
}

// Build constructs the Go value for GraphQL type gt identified by key (a response path).
func (u *Uni) Build(t reflect.Type, gt *ast.Type, key string) reflect.Value {
	if gt.Elem != nil {
		for t.Kind() == reflect.Ptr {
			// pointer to slice is not used by the probes
			panic("uni: pointer to slice")
		}
		n := u.Plan.ListLen(key)
		s := reflect.MakeSlice(t, n, n)
		en := nilable(t.Elem())
		for i := 0; i < n; i++ {
			if u.Plan.ElemNull(key, i, en) {
				if et := t.Elem(); et.Kind() == reflect.Interface && u.Plan.TypedNil(fmt.Sprintf("%s[%d]", key, i)) {
					// a typed nil pointer inside the interface value (see call)
					if mt, ok := u.V.Models["User"]; ok && reflect.PointerTo(mt).Implements(et) {
						u.noteTypedNil(fmt.Sprintf("%s[%d]", key, i))
						s.Index(i).Set(reflect.Zero(reflect.PointerTo(mt)).Convert(et))
					}
				}
				continue
			}
			s.Index(i).Set(u.Build(t.Elem(), gt.Elem, fmt.Sprintf("%s[%d]", key, i)))
		}
		return s
	}
	def := u.Schema.Types[gt.NamedType]
	switch def.Kind {
	case ast.Scalar, ast.Enum:
		v := reflect.New(t).Elem()
		setScalar(v, u.Plan.Scalar(key, gt.NamedType))
		return v
	case ast.Object:
		return u.buildObject(t, def.Name, key)
	case ast.Interface, ast.Union:
		var names []string
		for _, pt := range u.Schema.GetPossibleTypes(def) {
			names = append(names, pt.Name)
		}
		sort.Strings(names)
		concrete := u.Plan.Concrete(key, names)
		pv := u.buildObject(reflect.PointerTo(u.V.Models[concrete]), concrete, key)
		v := reflect.New(t).Elem()
		v.Set(pv)
		return v
	}
	panic("uni: unsupported kind " + string(def.Kind))
}

func (u *Uni) buildObject(t reflect.Type, objType, key string) reflect.Value {
	st := t
	if t.Kind() == reflect.Ptr {
		st = t.Elem()
	}
	pv := reflect.New(st)
	sv := pv.Elem()
	def := u.Schema.Types[objType]
	for _, fd := range def.Fields {
		b := u.bind[objType+"."+fd.Name]
		if b.Resolver {
			continue
		}
		f := sv.FieldByNameFunc(func(n string) bool { return strings.EqualFold(n, fd.Name) })
		if u.Plan.StructNull(key, fd.Name, b.Nilable) {
			continue
		}
		setScalar(f, u.Plan.Scalar(key+"|"+fd.Name, fd.Type.Name()))
	}
	if t.Kind() == reflect.Ptr {
		return pv
	}
	return sv
}

// FedVariant is one generated federation probe package.
type FedVariant struct {
	Name    string
	NewStub func() any
	Build   func(stub any, hook func(ctx context.Context, typ, key string) error) graphql.ExecutableSchema
}
