// Package histsim is the request-history simulation for C07: a long-lived handler.Server serves a
// seeded history of requests over several transports, sequentially or overlapped; every response
// must equal what a freshly constructed server returns for that request alone.
package histsim

import (
	"bytes"
	"context"
	"crypto/sha256"
	"encoding/hex"
	"encoding/json"
	"fmt"
	"net/http"
	"net/http/httptest"
	"net/url"
	"reflect"
	"runtime"
	"sort"
	"strings"
	"sync"
	"testing/synctest"

	"github.com/99designs/gqlgen/graphql"
	"github.com/99designs/gqlgen/graphql/handler"
	"github.com/99designs/gqlgen/graphql/handler/extension"
	"github.com/99designs/gqlgen/graphql/handler/lru"
	"github.com/99designs/gqlgen/graphql/handler/transport"
	"github.com/vektah/gqlparser/v2/ast"

	"verifsim/core"
	"verifsim/execsim"
	"verifsim/probereg"
	"verifsim/refexec"
	"verifsim/uni"
)

type hreq struct {
	Transport string
	Query     string
	OpName    *string
	Vars      map[string]any
	HasVars   bool
	Ext       map[string]any
	Header    string // value of an extra request header X-Client
	APQ       string // "", "register", "hash-only"
	HashOf    string // for APQ wrong-hash: the text whose hash is sent
	Accept    string // Accept header ("" = none)
	RawBody   string // non-empty: this exact POST body (valid JSON of the wrong shape)
}

func (r hreq) key() string {
	b, _ := json.Marshal(r)
	return string(b)
}

type hresp struct {
	Status int
	CType  string // all response headers, canonically rendered
	Body   string
}

func (r hresp) String() string { return fmt.Sprintf("%d %q %s", r.Status, r.CType, r.Body) }

var queries = []string{
	`{ hello }`,
	`query A { hello } query B { maybe me { id name } }`,
	`query($b: Blob!) { echo(b: $b) }`,
	`query Q($b: Blob!, $s: Boolean = false) { echo(b: $b) hello @skip(if: $s) }`,
	`{ me { posts { related { owner { id name nick } ... on User { owner { plain } } ... on Post { owner { plainReq } } } } } }`,
	`{ items { ... on Node { owner { id name nick } } ... on User { owner { plain } } ... on Post { owner { t: plainReq } } } }`,
	`{ users { id friends { name } } }`,
	`mutation M { inc(by: 2) }`,
	`{ nope }`,
	`{ hello `,
	`{ __schema { queryType { name } } }`,
	// two texts that differ only in white space INSIDE a string literal, and two that differ only
	// in a line break that ends a comment
	`{ echo(b: "a b") }`,
	`{ echo(b: "a  b") }`,
	"{ hello # maybe\n}",
	"{ hello #\nmaybe }",
	`query R($x: Boolean!, $y: Boolean!) { me { owner { id name nick } owner @include(if: $x) { plain } owner @include(if: $y) { plainReq } } }`,
	`query R2($x: Boolean!, $y: Boolean!) { users { best { id name nick } best @include(if: $x) { plain } best @skip(if: $x) { plainReq } best @include(if: $y) { rank } } }`,
}

// bodies that are valid JSON but of the wrong shape: answered with a client error, and whatever
// was decoded from them must not survive into a later request
var rawBodies = []string{
	`{"operationName":"Leaked","variables":{"b":"leak","x":true,"y":true},"query":5}`,
	`{"query":"{ hello }","operationName":"B","variables":"notanobject"}`,
	`{"extensions":{"trace":"leaked"},"query":["x"]}`,
	`{"query":"{ maybe }","variables":{"b":"leak"},"extensions":7}`,
	`[{"query":"{ hello }"}]`,
}

func sp(s string) *string { return &s }

func hashOf(s string) string {
	b := sha256.Sum256([]byte(s))
	return hex.EncodeToString(b[:])
}

func pickReq(t *core.Tape) hreq {
	r := hreq{Transport: []string{"post", "post", "get", "graphql", "urlenc", "sse", "mmixed"}[t.Choose(7, "transport")]}
	r.Query = queries[t.Choose(len(queries), "query")]
	switch t.Choose(4, "opname") {
	case 1:
		r.OpName = sp("A")
	case 2:
		r.OpName = sp("B")
	case 3:
		r.OpName = sp("Q")
	}
	switch t.Choose(7, "vars") {
	case 1:
		r.HasVars, r.Vars = true, map[string]any{"b": "one"}
	case 2:
		r.HasVars, r.Vars = true, map[string]any{"b": "two", "s": true}
	case 3:
		r.HasVars, r.Vars = true, map[string]any{}
	case 4:
		r.HasVars, r.Vars = true, map[string]any{"x": true, "y": false, "b": "xy"}
	case 5:
		r.HasVars, r.Vars = true, map[string]any{"x": false, "y": true, "b": "yx"}
	case 6:
		// expensive under the complexity limit (echo costs the length of its argument)
		r.HasVars, r.Vars = true, map[string]any{"b": "a-blob-that-is-longer-than-the-complexity-limit-allows"}
	}
	r.Accept = []string{"", "application/json", "application/graphql-response+json", "*/*"}[t.Choose(4, "accept")]
	if r.Transport == "post" && t.Bool(1, 8, "rawbody") {
		r.RawBody = rawBodies[t.Choose(len(rawBodies), "raw")]
		r.APQ = "" // the raw body is all there is
	}
	switch t.Choose(5, "ext") {
	case 1:
		r.Ext = map[string]any{"trace": "x1"}
	case 2:
		r.APQ = "register"
	case 3:
		r.APQ = "hash-only"
	case 4:
		// the text is sent with the hash of ANOTHER text: must be refused and must not bind
		// that hash to this text
		r.APQ = "wrong-hash"
		r.HashOf = queries[t.Choose(len(queries), "hash-of")]
		if r.HashOf == r.Query {
			r.APQ = "register"
		}
	}
	if t.Bool(1, 3, "header") {
		r.Header = fmt.Sprintf("client-%d", t.Choose(3, "hv"))
	}
	if r.RawBody != "" {
		r.APQ, r.Ext, r.HashOf = "", nil, "" // the raw body is all there is
	}
	if r.Transport == "graphql" {
		// application/graphql carries only the query text
		r.OpName, r.Vars, r.HasVars, r.Ext, r.APQ, r.HashOf = nil, nil, false, nil, "", ""
	}
	if r.Transport == "urlenc" {
		// the url-encoded transport only sees a JSON document that contains a query member
		r.APQ, r.HashOf = "", ""
	}
	return r
}

// build turns a request description into an *http.Request.
func build(r hreq, ctx context.Context) *http.Request {
	m := map[string]any{}
	query := r.Query
	ext := map[string]any{}
	for k, v := range r.Ext {
		ext[k] = v
	}
	switch r.APQ {
	case "register":
		ext["persistedQuery"] = map[string]any{"version": 1, "sha256Hash": hashOf(r.Query)}
	case "hash-only":
		ext["persistedQuery"] = map[string]any{"version": 1, "sha256Hash": hashOf(r.Query)}
		query = ""
	case "wrong-hash":
		ext["persistedQuery"] = map[string]any{"version": 1, "sha256Hash": hashOf(r.HashOf)}
	}
	if query != "" {
		m["query"] = query
	}
	if r.OpName != nil {
		m["operationName"] = *r.OpName
	}
	if r.HasVars {
		m["variables"] = r.Vars
	}
	if len(ext) > 0 {
		m["extensions"] = ext
	}
	var req *http.Request
	switch r.Transport {
	case "get":
		q := url.Values{}
		keys := make([]string, 0, len(m))
		for k := range m {
			keys = append(keys, k)
		}
		sort.Strings(keys)
		for _, k := range keys {
			if s, ok := m[k].(string); ok {
				q.Set(k, s)
			} else {
				b, _ := json.Marshal(m[k])
				q.Set(k, string(b))
			}
		}
		req = httptest.NewRequest("GET", "/query?"+q.Encode(), nil)
	case "graphql":
		req = httptest.NewRequest("POST", "/query", strings.NewReader(r.Query))
		req.Header.Set("Content-Type", "application/graphql")
	case "urlenc":
		b, _ := json.Marshal(m)
		req = httptest.NewRequest("POST", "/query", bytes.NewReader(b))
		req.Header.Set("Content-Type", "application/x-www-form-urlencoded")
	default:
		b, _ := json.Marshal(m)
		req = httptest.NewRequest("POST", "/query", bytes.NewReader(b))
		req.Header.Set("Content-Type", "application/json")
		if r.Transport == "sse" {
			req.Header.Set("Accept", "text/event-stream")
		}
		if r.Transport == "mmixed" {
			req.Header.Set("Accept", "multipart/mixed")
		}
	}
	if r.Header != "" {
		req.Header.Set("X-Client", r.Header)
	}
	if r.Accept != "" && r.Transport != "sse" && r.Transport != "mmixed" {
		req.Header.Set("Accept", r.Accept)
	}
	if r.RawBody != "" {
		rb := httptest.NewRequest("POST", "/query", strings.NewReader(r.RawBody))
		rb.Header = req.Header
		req = rb
	}
	return req.WithContext(ctx)
}

type reqKey struct{}

// newServer builds the server under test; the same construction is used for the long-lived
// server and for every fresh oracle server.
func newServer(w *core.World, v *uni.Variant, park bool, planSeed uint64) (*handler.Server, *uni.Uni) {
	u := uni.New(w, v, &refexec.Plan{Seed: planSeed, MaxList: 2, NullPM: int(planSeed%2) * 100})
	u.Park = park
	v.SetBlobHook(nil)
	u.Custom = map[string]func(ctx context.Context, args []reflect.Value) (any, error){
		// echo returns its argument, so that variables are visible in the response
		"Query.echo": func(ctx context.Context, args []reflect.Value) (any, error) {
			b := args[1]
			if b.Kind() == reflect.Ptr {
				return b.Interface(), nil
			}
			p := reflect.New(b.Type())
			p.Elem().Set(b)
			return p.Interface(), nil
		},
	}
	u.KeyPrefix = func(ctx context.Context) string { return fmt.Sprintf("r%v:", ctx.Value(reqKey{})) }
	srv := handler.New(u.ES)
	srv.AddTransport(transport.SSE{})
	srv.AddTransport(transport.MultipartMixed{})
	srv.AddTransport(transport.Options{})
	// configured response headers without a Content-Type: the negotiated one is merged per request
	srv.AddTransport(transport.GET{ResponseHeaders: map[string][]string{"Cache-Control": {"no-store"}}})
	srv.AddTransport(transport.POST{ResponseHeaders: map[string][]string{"X-Served-By": {"sim"}}})
	srv.AddTransport(transport.GRAPHQL{})
	srv.AddTransport(transport.UrlEncodedForm{})
	srv.AddTransport(transport.MultipartForm{})
	srv.SetQueryCache(lru.New[*ast.QueryDocument](2))
	srv.Use(extension.Introspection{})
	srv.Use(extension.AutomaticPersistedQuery{Cache: lru.New[string](8)})
	// echo costs the length of its argument: the same (cached) document is within the limit
	// with one set of variables and over it with another
	srv.Use(extension.FixedComplexityLimit(30))
	// headers of the request are visible to resolvers through the operation context: echo them
	// into an extension so that a leak between requests shows up in the body
	srv.AroundResponses(func(ctx context.Context, next graphql.ResponseHandler) *graphql.Response {
		resp := next(ctx)
		if park {
			// a seam between "the response was produced" and "the transport writes it": other
			// requests can be served completely inside this window
			w.Park("resp", fmt.Sprintf("r%v:resp", ctx.Value(reqKey{})), ctx)
		}
		if resp != nil && graphql.HasOperationContext(ctx) {
			oc := graphql.GetOperationContext(ctx)
			if h := oc.Headers.Get("X-Client"); h != "" {
				if resp.Extensions == nil {
					resp.Extensions = map[string]any{}
				}
				resp.Extensions["client"] = h
			}
			if oc.Extensions != nil {
				if tr, ok := oc.Extensions["trace"]; ok {
					if resp.Extensions == nil {
						resp.Extensions = map[string]any{}
					}
					resp.Extensions["trace"] = tr
				}
			}
		}
		return resp
	})
	srv.SetRecoverFunc(func(ctx context.Context, err any) error { return fmt.Errorf("recovered:%v", err) })
	return srv, u
}

func serve(srv *handler.Server, r hreq, id int) hresp {
	ctx := context.WithValue(context.Background(), reqKey{}, id)
	rec := httptest.NewRecorder()
	srv.ServeHTTP(rec, build(r, ctx))
	var hs []string
	for k, vs := range rec.Header() {
		hs = append(hs, k+"="+strings.Join(vs, ","))
	}
	sort.Strings(hs)
	return hresp{Status: rec.Code, CType: strings.Join(hs, "; "), Body: rec.Body.String()}
}

// oracle responses are functions of the request alone: cached per process
var (
	oracleMu sync.Mutex
	oracle   = map[string]hresp{}
)

// freshResponse serves r on a fresh server in its own bubble-less context. The package-global
// sync.Pool of the POST transport is emptied first (two GCs), so that nothing a previous request
// left there can reach the oracle.
func freshResponse(w *core.World, v *uni.Variant, r hreq, planSeed uint64) hresp {
	k := fmt.Sprintf("%s|%d|%s", v.Name, planSeed, r.key())
	oracleMu.Lock()
	if o, ok := oracle[k]; ok {
		oracleMu.Unlock()
		return o
	}
	oracleMu.Unlock()
	runtime.GC()
	runtime.GC()
	srv, _ := newServer(w, v, false, planSeed)
	o := serve(srv, r, -1)
	runtime.GC()
	runtime.GC()
	oracleMu.Lock()
	oracle[k] = o
	oracleMu.Unlock()
	return o
}

func Run(rc *core.RunCtx) {
	t := rc.Tape
	w := rc.W
	v := &probereg.Core[t.Choose(len(probereg.Core), "variant")]
	// a few resolver-outcome plans (some with nulls), so that no query is blind under all of them
	planSeed := uint64(10 + t.Choose(4, "planseed"))
	maxN := 12
	if rc.Tier == "thorough" {
		maxN = 25
	}
	n := 2 + t.Choose(maxN-1, "n")
	// a small working set so that texts repeat with different optional members
	ws := make([]hreq, 2+t.Choose(4, "wset"))
	for i := range ws {
		ws[i] = pickReq(t)
	}
	// a frequent special case: the same (cached) document with different variables, so that two
	// requests walk one AST at the same time
	sameDoc := t.Bool(1, 5, "same-doc")
	if sameDoc {
		q := queries[len(queries)-1-t.Choose(2, "which-r")]
		a := hreq{Transport: "post", Query: q, HasVars: true, Vars: map[string]any{"x": true, "y": false}}
		b := hreq{Transport: "post", Query: q, HasVars: true, Vars: map[string]any{"x": false, "y": true}}
		c := hreq{Transport: "get", Query: q, HasVars: true, Vars: map[string]any{"x": true, "y": true}}
		ws = []hreq{a, b, c}
	}
	reqs := make([]hreq, n)
	for i := range reqs {
		reqs[i] = ws[t.Choose(len(ws), "pick")]
		// vary one optional member of the same text
		vary := t.Choose(5, "vary")
		if sameDoc {
			vary = 0
		}
		switch vary {
		case 1:
			reqs[i].OpName = nil
		case 2:
			reqs[i].HasVars, reqs[i].Vars = false, nil
		case 3:
			reqs[i].Ext, reqs[i].Header = nil, ""
		case 4:
			if reqs[i].Transport == "post" {
				reqs[i].Transport = "get"
			} else if reqs[i].Transport == "get" {
				reqs[i].Transport = "post"
			}
		}
	}
	// oracle first (fresh servers, clean pool)
	want := make([]hresp, n)
	for i, r := range reqs {
		if r.APQ == "hash-only" {
			continue
		}
		want[i] = freshResponse(w, v, r, planSeed)
	}
	runtime.GC()
	runtime.GC()

	overlapped := t.Bool(1, 2, "overlap") || sameDoc
	srv, _ := newServer(w, v, overlapped, planSeed)
	got := make([]hresp, n)
	doneCh := make([]chan struct{}, n)
	launch := func(i int) {
		doneCh[i] = make(chan struct{})
		go func() {
			defer close(doneCh[i])
			got[i] = serve(srv, reqs[i], i)
		}()
	}
	next := 0
	maxOverlap := 0
	for step := 0; step < 6000; step++ {
		synctest.Wait()
		w.NextStep()
		inflight := 0
		for i := 0; i < next; i++ {
			select {
			case <-doneCh[i]:
			default:
				inflight++
			}
		}
		if inflight > maxOverlap {
			maxOverlap = inflight
		}
		if next >= n && inflight == 0 {
			break
		}
		items := w.Parked()
		nact := len(items)
		canLaunch := next < n && (inflight == 0 || overlapped && inflight < 3)
		if canLaunch {
			nact++
		}
		if nact == 0 {
			site, dump := core.StuckSite()
			rc.Fail("stuck", site, "requests in flight but nothing enabled\n%s", dump)
			return
		}
		k := t.Choose(nact, "act")
		if k < len(items) {
			w.Release(items[k], nil)
		} else {
			w.Logf("launch", fmt.Sprint(next), "%s", reqs[next].Transport)
			launch(next)
			next++
		}
	}
	hist := func() string {
		var sb strings.Builder
		for i, r := range reqs {
			fmt.Fprintf(&sb, "\n  [%d] %s", i, r.key())
		}
		return sb.String()
	}
	registered := map[string]bool{}
	for i, r := range reqs {
		if r.APQ == "hash-only" {
			// the only permitted memory: either not found, or exactly the registered text
			alt := r
			alt.APQ = ""
			full := freshResponse(w, v, alt, planSeed)
			nf := strings.Contains(got[i].Body, "PersistedQueryNotFound")
			if !(nf || got[i].Body == full.Body) {
				rc.Fail("apq-hash-only-response", r.Transport, "request %d (hash only) answered %s\nwhich is neither PersistedQueryNotFound nor the response of its text %s\nhistory:%s", i, got[i], full, hist())
				return
			}
			if !nf && !registered[r.Query] && !overlapped {
				rc.Fail("apq-hash-only-response", "unregistered", "request %d (hash only) executed a text that was never registered\nhistory:%s", i, hist())
				return
			}
			continue
		}
		if r.APQ == "register" {
			// the registration happens in the parameter mutator, before parsing and validation
			registered[r.Query] = true
		}
		if got[i] != want[i] {
			site := r.Transport
			switch {
			case got[i].Status != want[i].Status:
				site += "-status"
			case got[i].CType != want[i].CType:
				site += "-headers"
			default:
				site += "-body"
			}
			rc.Fail("response-depends-on-history", site, "request %d answered\n  %s\na fresh server answers\n  %s\nrequest: %s\noverlapped=%v history:%s", i, got[i], want[i], r.key(), overlapped, hist())
			return
		}
	}
	w.CountN("requests", n)
	for _, r := range reqs {
		w.Count("transport_" + r.Transport)
	}
	if maxOverlap >= 2 {
		w.Count("overlapped_histories")
	}
	rc.Res.Nontrivial = n >= 2
	var sig []string
	for _, r := range reqs {
		sig = append(sig, r.key())
	}
	rc.Res.Sig = execsim.SigOf(v.Name, strings.Join(sig, ";"), overlapped, w.LogHash())
	rc.Res.Sample = map[string]any{"variant": v.Name, "overlapped": maxOverlap >= 2, "history": sig}
}
