// Package execsim is the executor-level simulation: one generated probe server, the universal
// resolver, and a scheduler that decides which parked resolver/directive call returns next.
// It serves C01, C04, C05, C06 and C13.
package execsim

import (
	"bytes"
	"context"
	"encoding/json"
	"fmt"
	"net/http/httptest"
	"sort"
	"strings"
	"sync"
	"sync/atomic"
	"testing/synctest"

	"github.com/99designs/gqlgen/graphql"
	"github.com/99designs/gqlgen/graphql/executor"
	"github.com/99designs/gqlgen/graphql/handler"
	"github.com/99designs/gqlgen/graphql/handler/transport"
	gqlparser "github.com/vektah/gqlparser/v2"
	"github.com/vektah/gqlparser/v2/ast"
	"github.com/vektah/gqlparser/v2/gqlerror"
	"github.com/vektah/gqlparser/v2/validator"

	"verifsim/core"
	"verifsim/ops"
	"verifsim/parsers"
	"verifsim/refexec"
	"verifsim/uni"
)

// Sched is a release discipline.
type Sched int

const (
	SchedFirst Sched = iota
	SchedLast
	SchedDeepest
	SchedRandom
	SchedBurst
	NumScheds
)

func (s Sched) String() string {
	return [...]string{"first", "last", "deepest", "random", "burst"}[s]
}

// Cfg is one execution.
type Cfg struct {
	Variant  *uni.Variant
	Op       ops.Op
	Plan     *refexec.Plan
	Sched    Sched
	CtxMode  uni.CtxMode
	ParkDir  bool
	CancelAt int  // quiescent point at which the request context is cancelled; <0 never
	Single   bool // take only the first payload (single-response transport), then cancel
	MaxSteps int
	ViaHTTP  bool    // go through handler.Server + transport.POST instead of the response function
	Server   *Server // reuse a server (same executor, same uni); nil = fresh
}

// Server is one long-lived generated server: the universal resolver, an executor and an HTTP
// handler with the POST transport.
type Server struct {
	U         *uni.Uni
	Ex        *executor.Executor
	H         *handler.Server
	recovered atomic.Int32
	// StockRecover: the counting RecoverFunc hands over to graphql.DefaultRecover, so that the
	// stock message ("internal system error") is what the client sees
	StockRecover bool
}

// NewServer builds a server of variant v; plan can be swapped between requests via s.U.Plan.
func NewServer(rc *core.RunCtx, v *uni.Variant, plan *refexec.Plan) *Server {
	s := &Server{U: uni.New(rc.W, v, plan)}
	v.SetBlobHook(blobHook)
	rec := func(ctx context.Context, err any) error {
		s.recovered.Add(1)
		rc.W.Logf("recover", "", "%v", err)
		if s.StockRecover {
			return graphql.DefaultRecover(ctx, err)
		}
		return fmt.Errorf("recovered:%v", err)
	}
	s.Ex = executor.New(s.U.ES)
	s.Ex.SetRecoverFunc(rec)
	s.Ex.Use(uni.Interceptor{U: s.U})
	s.H = handler.New(s.U.ES)
	s.H.AddTransport(transport.POST{})
	s.H.SetRecoverFunc(rec)
	s.H.Use(uni.Interceptor{U: s.U})
	return s
}

// Payload is a parsed response payload.
type Payload struct {
	Raw     string
	Data    *parsers.J
	HasData bool
	Errors  []refexec.Err
	Path    string
	HasPath bool
	Label   string
	HasNext *bool
	JSONErr string
}

// Out is what one execution produced.
type Out struct {
	GateErrs     gqlerror.List // CreateOperationContext errors
	Payloads     []*Payload
	Done         bool // response function returned nil / single payload taken
	Stuck        bool
	StuckSite    string
	StuckDump    string
	Recovered    int
	StockRecover bool // panics are reported with gqlgen's stock message
	HTTPStatus   int
	HTTPBody     string
	Quiescent    int // quiescent points at which something was parked
	MaxEnabled   int
	Sig          []string // released keys in order
	Cancelled    bool
	MutOrder     []string // root keys in order of first activity
	MutOverlap   string   // non-empty: description of a serial-execution violation
	Leaks        []core.Goroutine
	Doc          *ast.QueryDocument
	Operation    *ast.OperationDefinition
	Vars         map[string]any
	U            *uni.Uni
}

func convErrs(l gqlerror.List) []refexec.Err {
	var out []refexec.Err
	for _, e := range l {
		out = append(out, refexec.Err{Path: e.Path.String(), Class: refexec.ClassOf(e.Message)})
	}
	return out
}

func toPayload(r *graphql.Response) *Payload {
	p := &Payload{Raw: string(r.Data), Label: r.Label, HasNext: r.HasNext, Errors: convErrs(r.Errors)}
	if r.Path != nil {
		p.HasPath = true
		p.Path = r.Path.String()
	}
	if r.Data != nil {
		p.HasData = true
		j, err := parsers.ParseJSON([]byte(r.Data))
		if err != nil {
			p.JSONErr = err.Error()
		}
		p.Data = j
	}
	return p
}

// ParseBody parses a JSON GraphQL response body ({data, errors}) into a Payload.
func ParseBody(body string) *Payload { return httpPayload(body) }

// httpPayload parses a JSON GraphQL response body into a Payload.
func httpPayload(body string) *Payload {
	p := &Payload{Raw: body}
	j, err := parsers.ParseJSON([]byte(body))
	if err != nil {
		p.JSONErr = "body: " + err.Error()
		return p
	}
	if j.K != parsers.Obj {
		p.JSONErr = "body is not a JSON object"
		return p
	}
	if d := j.Get("data"); d != nil {
		p.HasData = true
		p.Data = d
		p.Raw = d.Canon()
	}
	if es := j.Get("errors"); es != nil && es.K == parsers.Arr {
		for _, e := range es.A {
			var path strings.Builder
			if pj := e.Get("path"); pj != nil && pj.K == parsers.Arr {
				for i, el := range pj.A {
					if el.K == parsers.Num {
						path.WriteString("[" + el.N + "]")
					} else {
						if i > 0 {
							path.WriteString(".")
						}
						path.WriteString(el.S)
					}
				}
			}
			msg := ""
			if m := e.Get("message"); m != nil {
				msg = m.S
			}
			p.Errors = append(p.Errors, refexec.Err{Path: path.String(), Class: refexec.ClassOf(msg)})
		}
	}
	return p
}

func rootOf(key string) string {
	if i := strings.IndexAny(key, ".["); i >= 0 {
		return key[:i]
	}
	return key
}

func pick(t *core.Tape, s Sched, items []*core.Item) []*core.Item {
	if len(items) == 1 {
		return items
	}
	switch s {
	case SchedFirst:
		return items[:1]
	case SchedLast:
		return items[len(items)-1:]
	case SchedDeepest:
		best := 0
		for i, it := range items {
			if strings.Count(it.Key, ".")+strings.Count(it.Key, "[") > strings.Count(items[best].Key, ".")+strings.Count(items[best].Key, "[") {
				best = i
			}
		}
		return items[best : best+1]
	case SchedRandom:
		i := t.Choose(len(items), "pick")
		return items[i : i+1]
	default: // burst: a tape-chosen non-empty subset; 0 = everything
		if t.Choose(3, "burst-all") == 0 {
			return items
		}
		var out []*core.Item
		for _, it := range items {
			if t.Bool(1, 2, "burst-in") {
				out = append(out, it)
			}
		}
		if len(out) == 0 {
			out = items[:1]
		}
		return out
	}
}

// Execute runs one operation to completion under cfg. It must be called inside a bubble.
func Execute(rc *core.RunCtx, cfg Cfg) *Out {
	w := rc.W
	out := &Out{}
	srv := cfg.Server
	if srv == nil {
		srv = NewServer(rc, cfg.Variant, cfg.Plan)
	}
	u := srv.U
	u.Plan = cfg.Plan
	u.Ctx = cfg.CtxMode
	u.ParkDir = cfg.ParkDir
	out.U = u
	rec0 := srv.recovered.Load()
	base, cancel := context.WithCancel(context.Background())
	defer cancel()
	done := make(chan struct{})
	var runaway atomic.Bool
	var payloads []*Payload
	var retained []*graphql.Response
	var pmu sync.Mutex
	isMutation := false
	if doc, lerr := gqlparser.LoadQuery(u.Schema, cfg.Op.Query); len(lerr) == 0 {
		if op := doc.Operations.ForName(cfg.Op.OpName); op != nil {
			isMutation = op.Operation == ast.Mutation
			out.Doc, out.Operation = doc, op
			if vars, verr := validator.VariableValues(u.Schema, op, cfg.Op.Vars); verr == nil {
				out.Vars = vars
			}
		}
	}
	if cfg.ViaHTTP {
		body, _ := json.Marshal(map[string]any{"query": cfg.Op.Query, "variables": cfg.Op.Vars, "operationName": cfg.Op.OpName})
		req := httptest.NewRequest("POST", "/query", bytes.NewReader(body)).WithContext(base)
		req.Header.Set("Content-Type", "application/json")
		rec := httptest.NewRecorder()
		go func() {
			defer close(done)
			srv.H.ServeHTTP(rec, req)
			pmu.Lock()
			out.HTTPStatus = rec.Code
			out.HTTPBody = rec.Body.String()
			pmu.Unlock()
		}()
	} else {
		ctx := graphql.StartOperationTrace(base)
		params := &graphql.RawParams{Query: cfg.Op.Query, Variables: cfg.Op.Vars, OperationName: cfg.Op.OpName}
		opc, errs := srv.Ex.CreateOperationContext(ctx, params)
		if len(errs) > 0 {
			out.GateErrs = errs
			out.Done = true
			return out
		}
		out.Doc, out.Operation, out.Vars = opc.Doc, opc.Operation, opc.Variables
		isMutation = opc.Operation.Operation == ast.Mutation
		handler, hctx := srv.Ex.DispatchOperation(ctx, opc)
		go func() {
			defer close(done)
			for {
				r := handler(hctx)
				if r == nil {
					return
				}
				// the consumer keeps the *graphql.Response values and looks at them only when the
				// sequence is over (as the multipart aggregator does): a payload must stay
				// intact while later ones are produced
				pmu.Lock()
				retained = append(retained, r)
				n := len(retained)
				pmu.Unlock()
				if cfg.Single {
					return
				}
				if n > 400 {
					// no operation of the corpus has that many payloads: the sequence does not end
					runaway.Store(true)
					return
				}
			}
		}()
	}

	maxSteps := cfg.MaxSteps
	if maxSteps == 0 {
		maxSteps = 2000
	}
	defer func() {
		if runaway.Load() && !out.Stuck {
			out.Stuck = true
			out.StuckSite = "endless-payload-sequence"
			out.StuckDump = "the response function keeps returning payloads (more than 400)"
		}
	}()
	finished := false
	var lastRoot string
	seenRoots := map[string]bool{}
	for step := 0; step < maxSteps; step++ {
		synctest.Wait()
		w.NextStep()
		select {
		case <-done:
			finished = true
		default:
		}
		if finished {
			break
		}
		items := w.Parked()
		if cfg.CancelAt == out.Quiescent && !out.Cancelled {
			cancel()
			out.Cancelled = true
			w.Logf("cancel", "", "at quiescent point %d", out.Quiescent)
			// cancellation may wake goroutines blocked in Acquire/select: re-evaluate
			out.Quiescent++
			continue
		}
		if len(items) == 0 {
			out.Stuck = true
			out.StuckSite, out.StuckDump = core.StuckSite()
			break
		}
		out.Quiescent++
		if len(items) > out.MaxEnabled {
			out.MaxEnabled = len(items)
		}
		if isMutation {
			roots := map[string]bool{}
			for _, it := range items {
				roots[rootOf(it.Key)] = true
			}
			if len(roots) > 1 && out.MutOverlap == "" {
				var rs []string
				for r := range roots {
					rs = append(rs, r)
				}
				sort.Strings(rs)
				out.MutOverlap = fmt.Sprintf("calls of root fields %v in flight together", rs)
			}
			for r := range roots {
				if r != lastRoot {
					if seenRoots[r] && out.MutOverlap == "" {
						out.MutOverlap = fmt.Sprintf("root field %s active again after %s started", r, lastRoot)
					}
					seenRoots[r] = true
					lastRoot = r
					out.MutOrder = append(out.MutOrder, r)
				}
			}
		}
		sel := pick(w.Tape, cfg.Sched, items)
		for _, it := range sel {
			out.Sig = append(out.Sig, it.ID())
		}
		for _, it := range sel {
			w.Release(it, nil)
		}
	}
	out.Done = finished
	pmu.Lock()
	for _, r := range retained {
		payloads = append(payloads, toPayload(r))
	}
	out.Payloads = append([]*Payload(nil), payloads...)
	pmu.Unlock()
	out.Recovered = int(srv.recovered.Load() - rec0)
	out.StockRecover = srv.StockRecover
	if cfg.ViaHTTP && finished {
		out.Payloads = []*Payload{httpPayload(out.HTTPBody)}
	}
	if !finished && !out.Stuck {
		out.Stuck = true
		out.StuckSite = "step-budget"
	}
	return out
}

// EndOfLife cancels nothing itself (the caller's cfg decides) but drains whatever is still
// parked so that resolvers return, then scans for goroutines gqlgen left behind.
func EndOfLife(rc *core.RunCtx) []core.Goroutine {
	for i := 0; i < 500; i++ {
		synctest.Wait()
		items := rc.W.Parked()
		if len(items) == 0 {
			break
		}
		for _, it := range items {
			rc.W.Release(it, nil)
		}
	}
	return core.Leaks()
}

// BlobHook is the probe's custom-scalar hook (exported for the other scenarios).
func BlobHook(op, s string) error { return blobHook(op, s) }

func blobHook(op, s string) error {
	switch {
	case op == "unmarshal" && s == "BLOB_ERR":
		return fmt.Errorf("A:error")
	case op == "unmarshal" && s == "BLOB_PANIC":
		panic("A:panic")
	case (op == "marshal" || op == "marshalfn") && strings.HasPrefix(s, "MARSHAL_PANIC"):
		panic("M:panic")
	}
	return nil
}

// Reference evaluates the reference executor for the same operation and plan.
func Reference(o *Out) *refexec.Result {
	return refexec.Execute(o.U.Env(), o.Doc, o.Operation, o.Vars)
}

// CompareErrs compares error multisets; argument-coercion errors ("A:") are matched when the
// actual path has the expected path as a prefix.
func CompareErrs(want, got []refexec.Err) string {
	g := append([]refexec.Err(nil), got...)
	for i := range g {
		if strings.HasPrefix(g[i].Class, "A:") {
			for _, w := range want {
				if strings.HasPrefix(w.Class, "A:") && (g[i].Path == w.Path || strings.HasPrefix(g[i].Path, w.Path+".") || strings.HasPrefix(g[i].Path, w.Path+"[")) {
					g[i].Path = w.Path
					break
				}
			}
		}
	}
	ws, gs := refexec.SortedErrs(want), refexec.SortedErrs(g)
	if strings.Join(ws, "\n") == strings.Join(gs, "\n") {
		return ""
	}
	return fmt.Sprintf("expected errors %q, got %q", ws, gs)
}
