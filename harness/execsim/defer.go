package execsim

import (
	"fmt"
	"sort"
	"strings"

	"github.com/vektah/gqlparser/v2/ast"

	"verifsim/core"
	"verifsim/parsers"
	"verifsim/refexec"
)

// deferInfo summarises what the payload sequence of an operation with @defer looked like.
type deferInfo struct {
	Incremental    int
	FailedGroups   int
	OutOfOrder     int
	ErrorsSubset   bool // errors were a strict subset of the reference's
	Merged         *parsers.J
	Ref            *refexec.Result
	OrderProblem   string
	OrderSite      string
	ContentOK      bool
	NestedDelivery bool
}

func deferLabels(doc *ast.QueryDocument) map[string]bool {
	labels := map[string]bool{"": true}
	var walk func(ss ast.SelectionSet)
	note := func(dl ast.DirectiveList) {
		if d := dl.ForName("defer"); d != nil {
			if a := d.Arguments.ForName("label"); a != nil && a.Value != nil {
				labels[a.Value.Raw] = true
			}
		}
	}
	walk = func(ss ast.SelectionSet) {
		for _, s := range ss {
			switch s := s.(type) {
			case *ast.Field:
				walk(s.SelectionSet)
			case *ast.InlineFragment:
				note(s.Directives)
				walk(s.SelectionSet)
			case *ast.FragmentSpread:
				note(s.Directives)
			}
		}
	}
	for _, op := range doc.Operations {
		walk(op.SelectionSet)
	}
	for _, f := range doc.Fragments {
		walk(f.SelectionSet)
	}
	return labels
}

// checkDeferred is the C13 oracle over a finished payload sequence (all payloads taken).
func checkDeferred(rc *core.RunCtx, cfg Cfg, out *Out) (*deferInfo, bool) {
	return checkDeferredOpt(rc, cfg, out, true)
}

// checkDeferredOpt: with orderMatters=false the delivery-order rule of C13 is not enforced (C04
// only asks for containment of failures).
func checkDeferredOpt(rc *core.RunCtx, cfg Cfg, out *Out, orderMatters bool) (*deferInfo, bool) {
	desc := func() string {
		var sb strings.Builder
		fmt.Fprintf(&sb, "variant=%s sched=%s op=%q vars=%v plan=%v\npayloads:", cfg.Variant.Name, cfg.Sched, cfg.Op.Query, cfg.Op.Vars, planDesc(cfg.Plan))
		for i, p := range out.Payloads {
			hn := "-"
			if p.HasNext != nil {
				hn = fmt.Sprint(*p.HasNext)
			}
			fmt.Fprintf(&sb, "\n  [%d] path=%q label=%q hasNext=%s data=%s errors=%v", i, p.Path, p.Label, hn, p.Raw, refexec.SortedErrs(p.Errors))
		}
		return sb.String()
	}
	if len(out.GateErrs) > 0 {
		rc.Fail("valid-operation-rejected", "gate", "op %q rejected: %v", cfg.Op.Query, out.GateErrs)
		return nil, false
	}
	if out.Stuck {
		rc.Fail("stuck", out.StuckSite, "payload sequence did not end although nothing is parked\n%s\n%s", desc(), out.StuckDump)
		return nil, false
	}
	if len(out.Payloads) == 0 {
		rc.Fail("payload-count", "response", "no payload at all\n%s", desc())
		return nil, false
	}
	for i, p := range out.Payloads {
		if p.JSONErr != "" {
			rc.Fail("invalid-json", jsonSite(p.JSONErr), "payload %d data is not valid JSON (%s)\n%s", i, p.JSONErr, desc())
			return nil, false
		}
	}
	info := &deferInfo{Incremental: len(out.Payloads) - 1}
	p0 := out.Payloads[0]
	if p0.HasPath {
		rc.Fail("initial-payload-has-path", "payload0", "%s", desc())
		return info, false
	}
	// hasNext discipline
	last := len(out.Payloads) - 1
	for i, p := range out.Payloads {
		switch {
		case i < last && (p.HasNext == nil || !*p.HasNext):
			rc.Fail("hasnext", "not-true-before-last", "payload %d of %d has hasNext!=true\n%s", i, len(out.Payloads), desc())
			return info, false
		case i == last && last > 0 && (p.HasNext == nil || *p.HasNext):
			rc.Fail("hasnext", "not-false-on-last", "last payload has hasNext!=false\n%s", desc())
			return info, false
		case i == last && last == 0 && p.HasNext != nil && *p.HasNext:
			rc.Fail("hasnext", "true-on-only-payload", "the only payload announces more\n%s", desc())
			return info, false
		}
	}
	labels := deferLabels(out.Doc)
	merged := p0.Data.Clone()
	failed := map[string]bool{}
	seen := map[string]bool{}
	type pend struct {
		i int
		p *Payload
	}
	var pending []pend
	apply := func(p *Payload) (bool, string) {
		target := merged.At(p.Path)
		if target == nil || target.K != parsers.Obj {
			return false, ""
		}
		if p.Data == nil || p.Data.IsNull() {
			failed[p.Path] = true
			info.FailedGroups++
			return true, ""
		}
		if p.Data.K != parsers.Obj {
			return true, "incremental data is not an object"
		}
		for k, key := range p.Data.Keys {
			if ex := target.Get(key); ex != nil && !ex.IsNull() {
				return true, fmt.Sprintf("field %q of %q delivered twice", key, p.Path)
			}
			target.Set(key, p.Data.Vals[k].Clone())
		}
		return true, ""
	}
	for i, p := range out.Payloads[1:] {
		if !p.HasPath {
			rc.Fail("incremental-without-path", "payload", "payload %d\n%s", i+1, desc())
			return info, false
		}
		id := p.Path + "|" + p.Label
		if seen[id] {
			rc.Fail("group-delivered-twice", "payload", "group path=%q label=%q\n%s", p.Path, p.Label, desc())
			return info, false
		}
		seen[id] = true
		if !labels[p.Label] {
			rc.Fail("unknown-label", "payload", "label %q is not in the document\n%s", p.Label, desc())
			return info, false
		}
		okApplied, problem := apply(p)
		if problem != "" {
			rc.Fail("field-delivered-twice", "payload", "%s\n%s", problem, desc())
			return info, false
		}
		if !okApplied {
			info.OutOfOrder++
			if info.OrderProblem == "" {
				info.OrderProblem = fmt.Sprintf("payload %d (path %q label %q) arrived before the payload that delivers its object", i+1, p.Path, p.Label)
				info.OrderSite = "nested-group-before-parent"
			}
			pending = append(pending, pend{i + 1, p})
			continue
		}
		// a newly applied payload may make pending ones applicable
		for progress := true; progress; {
			progress = false
			for k := 0; k < len(pending); k++ {
				if okA, prob := apply(pending[k].p); okA {
					if prob != "" {
						rc.Fail("field-delivered-twice", "payload", "%s\n%s", prob, desc())
						return info, false
					}
					pending = append(pending[:k], pending[k+1:]...)
					progress = true
					k--
				}
			}
		}
	}
	info.Merged = merged
	// content
	env := out.U.Env()
	env.InFailedGroup = func(objPath, key string) bool {
		if !failed[objPath] {
			return false
		}
		o := merged.At(objPath)
		if o == nil {
			return false
		}
		v := o.Get(key)
		return v == nil || v.IsNull()
	}
	ref := refexec.Execute(env, out.Doc, out.Operation, out.Vars)
	info.Ref = ref
	if len(pending) > 0 {
		// the object of a group was never delivered
		for _, pd := range pending {
			if o := ref.Data.At(pd.p.Path); o != nil && o.K == parsers.Obj {
				rc.Fail("group-path-never-delivered", "payload", "payload %d path %q never became applicable although the plain result has that object\n%s", pd.i, pd.p.Path, desc())
				return info, false
			}
		}
		// the plain result nulls the object too (propagation from a sibling or ancestor), yet a
		// group was delivered for it: a client cannot find the path
		info.OrderProblem = fmt.Sprintf("payload %d (path %q label %q) was delivered although its object was removed by null propagation and is in no payload", pending[0].i, pending[0].p.Path, pending[0].p.Label)
		info.OrderSite = "group-for-undelivered-object"
		// groups that never became applicable and came back failed: `failed` only knows the
		// applied ones
		pendFailed := map[string]bool{}
		for _, pd := range pending {
			if pd.p.Data == nil || pd.p.Data.IsNull() {
				pendFailed[pd.p.Path] = true
			}
		}
		for _, pd := range pending {
			// (only decidable when no group of that object failed: a group that failed may be
			// the very reason the reference sees the object as invalid)
			// (... or of an object below it: its null would have propagated up to here in the
			// reference, which does not know the membership of groups that were never applied)
			failedBelow := false
			for fp := range pendFailed {
				if fp == pd.p.Path || strings.HasPrefix(fp, pd.p.Path+".") || strings.HasPrefix(fp, pd.p.Path+"[") {
					failedBelow = true
				}
			}
			if ref.InvalidObjects[pd.p.Path] && !failed[pd.p.Path] && !failedBelow && pd.p.Data != nil && !pd.p.Data.IsNull() {
				// the object is invalid because of one of its own non-deferred fields: its
				// groups must never have been started
				info.OrderProblem = fmt.Sprintf("payload %d (path %q label %q) belongs to an object that is itself invalid (one of its own non-deferred non-null fields failed), yet its deferred group was started and delivered", pd.i, pd.p.Path, pd.p.Label)
				info.OrderSite = "group-of-invalid-object"
				break
			}
		}
	}
	if got, want := merged.CanonSorted(), ref.Data.CanonSorted(); got != want {
		rc.Fail("merged-data-mismatch", dataSite(want, got), "merged payloads differ from the plain result\nexpected %s\nmerged   %s\n%s", want, got, desc())
		return info, false
	}
	var fps []string
	for fp := range failed {
		fps = append(fps, fp)
	}
	sort.Strings(fps)
	for _, fp := range fps {
		if !ref.GroupViolation[fp] {
			rc.Fail("group-nulled-without-cause", "payload", "group at %q was delivered with null data but none of its fields violates non-null\n%s", fp, desc())
			return info, false
		}
	}
	// errors: nothing the plain execution would not report
	var all []refexec.Err
	for _, p := range out.Payloads {
		all = append(all, p.Errors...)
	}
	if d := CompareErrs(ref.Errors, all); d != "" {
		if extra := extraErrs(collapsed(ref.Errors, all), all); len(extra) > 0 {
			rc.Fail("errors-not-in-plain-result", "extra-errors", "errors %q are not reported by the plain execution\n%s", extra, desc())
			return info, false
		}
		info.ErrorsSubset = true
	}
	info.ContentOK = true
	// every panic is recovered exactly once and reported exactly once; fields of a group that
	// never starts (its object was already invalid) legitimately do not run at all
	panicsReported := 0
	for _, e := range all {
		if strings.HasPrefix(e.Class, "P:") || e.Class == "A:panic" || e.Class == "M:panic" || e.Class == "I:panic" || e.Class == "R:panic" {
			panicsReported++
		}
	}
	if out.Recovered != panicsReported || panicsReported > ref.Panics {
		rc.Fail("recover-count", "recover", "RecoverFunc invoked %d times, %d panic errors reported, %d panics in the plan\n%s", out.Recovered, panicsReported, ref.Panics, desc())
		return info, false
	}
	if info.OrderProblem != "" && orderMatters {
		rc.Fail("payload-before-its-object", info.OrderSite, "%s\n%s", info.OrderProblem, desc())
		return info, false
	}
	return info, true
}

// extraErrs returns the errors of got that want does not contain (multiset difference).
func extraErrs(want, got []refexec.Err) []string {
	g := append([]refexec.Err(nil), got...)
	for i := range g {
		if strings.HasPrefix(g[i].Class, "A:") {
			for _, w := range want {
				if strings.HasPrefix(w.Class, "A:") && (g[i].Path == w.Path || strings.HasPrefix(g[i].Path, w.Path+".") || strings.HasPrefix(g[i].Path, w.Path+"[")) {
					g[i].Path = w.Path
					break
				}
			}
		}
	}
	cnt := map[string]int{}
	for _, w := range want {
		cnt[w.String()]++
	}
	var extra []string
	for _, e := range g {
		if cnt[e.String()] > 0 {
			cnt[e.String()]--
		} else {
			extra = append(extra, e.String())
		}
	}
	sort.Strings(extra)
	return extra
}
