package execsim

import (
	"crypto/sha256"
	"encoding/hex"
	"fmt"
	"github.com/99designs/gqlgen/graphql/handler/extension"
	"regexp"
	"strings"

	"github.com/vektah/gqlparser/v2/ast"

	"verifsim/core"
	"verifsim/ops"
	"verifsim/parsers"
	"verifsim/probereg"
	"verifsim/refexec"
	"verifsim/uni"
)

// Run is the scenario body; the property decides workload and oracle.
func Run(rc *core.RunCtx) {
	switch rc.Property {
	case "C01":
		runC01(rc)
	case "C04":
		runC04(rc)
	case "C05":
		runC05(rc)
	case "C06":
		runC06(rc)
	case "C13":
		runC13(rc)
	default:
		rc.Fail("config", "harness", "execsim does not serve property %q", rc.Property)
	}
}

func variants(want func(name string) bool) []*uni.Variant {
	var out []*uni.Variant
	for i := range probereg.Core {
		if want == nil || want(probereg.Core[i].Name) {
			out = append(out, &probereg.Core[i])
		}
	}
	return out
}

func pickVariant(rc *core.RunCtx, want func(string) bool) *uni.Variant {
	vs := variants(want)
	if len(vs) == 0 {
		vs = variants(nil)
	}
	return vs[rc.Tape.Choose(len(vs), "variant")]
}

// schemaOf returns the probe schema (identical for all variants).
func schemaOf(rc *core.RunCtx, v *uni.Variant) *ast.Schema {
	u := uni.New(rc.W, v, &refexec.Plan{})
	return u.Schema
}

type opSource struct {
	Corpus   []ops.Op
	Gen      bool
	Defer    bool
	Mutation bool // generated mutations too
}

func pickOp(rc *core.RunCtx, v *uni.Variant, src opSource) ops.Op {
	t := rc.Tape
	if src.Gen && t.Bool(1, 2, "gen?") {
		o := ops.GenOpts{Depth: 1 + t.Choose(4, "depth"), Defer: src.Defer}
		if src.Mutation && t.Bool(1, 5, "mutation?") {
			o.Mutation = true
		}
		op, discarded, ok := ops.Generate(schemaOf(rc, v), t, o)
		rc.W.CountN("gen_discarded", discarded)
		if ok {
			rc.W.Count("gen_ops")
			return op
		}
		rc.W.Count("gen_gaveup")
	}
	rc.W.Count("corpus_ops")
	op := src.Corpus[t.Choose(len(src.Corpus), "op")]
	// a variant may name its mutation root differently (schema { mutation: RootMutation })
	if m := schemaOf(rc, v).Mutation; m != nil && m.Name != "Mutation" {
		op.Query = strings.ReplaceAll(op.Query, " on Mutation ", " on "+m.Name+" ")
	}
	return op
}

func pickPlan(rc *core.RunCtx, faultsOnly bool) *refexec.Plan {
	t := rc.Tape
	p := &refexec.Plan{Seed: uint64(t.Choose(1<<20, "planseed")), MaxList: []int{3, 2, 5, 1}[t.Choose(4, "maxlist")]}
	if !faultsOnly {
		p.NullPM = []int{0, 100, 250}[t.Choose(3, "nullpm")]
		p.ErrPM = []int{0, 80, 200}[t.Choose(3, "errpm")]
		p.DirPM = []int{0, 300}[t.Choose(2, "dirpm")]
		p.TagPanicPM = []int{0, 0, 150}[t.Choose(3, "tagpanicpm")]
	}
	return p
}

func sigOf(parts ...any) string {
	h := sha256.New()
	for _, p := range parts {
		fmt.Fprintf(h, "%v|", p)
	}
	return hex.EncodeToString(h.Sum(nil))[:16]
}

func planDesc(p *refexec.Plan) map[string]any {
	return map[string]any{"seed": p.Seed, "null_pm": p.NullPM, "err_pm": p.ErrPM, "dir_pm": p.DirPM, "max_list": p.MaxList, "tag_panic_pm": p.TagPanicPM, "faults": p.Faults, "dir_faults": p.DirFaults}
}

// checkAgainstReference is the C01 oracle on a finished single-payload execution.
func checkAgainstReference(rc *core.RunCtx, cfg Cfg, out *Out) (ref *refexec.Result, ok bool) {
	if len(out.GateErrs) > 0 {
		rc.Fail("valid-operation-rejected", "gate", "op %q rejected: %v", cfg.Op.Query, out.GateErrs)
		return nil, false
	}
	if out.Stuck {
		rc.Fail("stuck", out.StuckSite, "operation did not finish although nothing is parked; op=%q sched=%s\n%s", cfg.Op.Query, cfg.Sched, out.StuckDump)
		return nil, false
	}
	if len(out.Payloads) != 1 {
		rc.Fail("payload-count", "response", "expected one payload, got %d; op=%q", len(out.Payloads), cfg.Op.Query)
		return nil, false
	}
	p := out.Payloads[0]
	if p.JSONErr != "" {
		rc.Fail("invalid-json", jsonSite(p.JSONErr), "data is not valid JSON (%s): %s\nvariant=%s op=%q", p.JSONErr, p.Raw, cfg.Variant.Name, cfg.Op.Query)
		return nil, false
	}
	ref = Reference(out)
	if out.StockRecover {
		// recovered panics carry gqlgen's stock message, at the path of the panicking position
		for i, e := range ref.Errors {
			if strings.HasPrefix(e.Class, "P:") || e.Class == "M:panic" || e.Class == "A:panic" || e.Class == "I:panic" || e.Class == "R:panic" {
				ref.Errors[i].Class = "gqlgen"
			}
		}
	}
	if got, want := p.Data.Canon(), ref.Data.Canon(); got != want {
		rc.Fail("data-mismatch", dataSite(want, got), "variant=%s sched=%s op=%q plan=%v\nexpected %s\ngot      %s", cfg.Variant.Name, cfg.Sched, cfg.Op.Query, planDesc(cfg.Plan), want, got)
		return ref, false
	}
	if d := CompareErrs(ref.Errors, p.Errors); d != "" {
		site := errSite(ref.Errors, p.Errors)
		// one specific shape gets its own name: the only errors missing are the "must not be
		// null" entries of positions where a TYPED NIL pointer stood for null
		base := ref.Errors
		if tn := out.U.TypedNils(); len(tn) > 0 {
			var rest []refexec.Err
			dropped := 0
			for _, e := range ref.Errors {
				if e.Class == "gqlgen" && tn[e.Path] {
					dropped++
					continue
				}
				rest = append(rest, e)
			}
			if dropped > 0 && CompareErrs(collapsed(rest, p.Errors), p.Errors) == "" {
				site = "typed-nil-at-non-null-position-without-error"
			}
			if dropped > 0 {
				base = rest // (the two shapes can occur in one response)
			}
		}
		// ... and another: everything agrees except the PATHS of the errors that came from one
		// shared error value (the first position's path is stamped into the value itself)
		if cfg.Plan.SharedErrors {
			strip := func(es []refexec.Err) (rest []refexec.Err, shared int) {
				for _, e := range es {
					if e.Class == "S:shared" {
						shared++
						continue
					}
					rest = append(rest, e)
				}
				return
			}
			wr, ws := strip(base)
			gr, gs := strip(p.Errors)
			// (a non-null position whose shared error went to another path also gets gqlgen's
			// "must not be null" entry, because no error is found at its own path)
			sharedAt := map[string]bool{}
			for _, e := range base {
				if e.Class == "S:shared" {
					sharedAt[e.Path] = true
				}
			}
			var gr2 []refexec.Err
			for _, e := range gr {
				if e.Class == "gqlgen" && sharedAt[e.Path] {
					continue
				}
				gr2 = append(gr2, e)
			}
			gr = gr2
			if ws >= 2 && ws == gs && CompareErrs(collapsed(wr, gr), gr) == "" {
				site = "shared-error-value-reported-at-one-path"
			}
		}
		rc.Fail("errors-mismatch", site, "variant=%s sched=%s op=%q plan=%v\n%s\ndata %s", cfg.Variant.Name, cfg.Sched, cfg.Op.Query, planDesc(cfg.Plan), d, p.Raw)
		return ref, false
	}
	return ref, true
}

// jsonSite keeps the kind of JSON defect (and the key for duplicates) but no positions.
func jsonSite(msg string) string {
	if i := strings.Index(msg, " at "); i >= 0 {
		msg = msg[:i]
	}
	return strings.ReplaceAll(msg, " ", "-")
}

// dataSite classifies a data mismatch coarsely (for fingerprints): which side is null-er.
func dataSite(want, got string) string {
	switch {
	case want == "null" && got != "null":
		return "root-not-nulled"
	case got == "null":
		return "root-nulled"
	case len(got) < len(want):
		return "less-data"
	case len(got) > len(want):
		return "more-data"
	}
	return "different-data"
}

var idxSuffix = regexp.MustCompile(`\[\d+\]$`)

// collapsed rewrites the model's per-element "gqlgen" errors (path ending in an index) to one
// error at the list's path, which is how gqlgen reports null elements of a list of non-null
// SCALARS (it has no per-element field context there).
func collapsed(want, got []refexec.Err) []refexec.Err {
	gotPaths := map[string]bool{}
	for _, g := range got {
		gotPaths[g.Path] = true
	}
	seen := map[string]bool{}
	var out []refexec.Err
	for _, e := range want {
		// element errors that gqlgen did report with their index (object lists) stay as they are
		if e.Class == "gqlgen" && idxSuffix.MatchString(e.Path) && !gotPaths[e.Path] {
			e.Path = idxSuffix.ReplaceAllString(e.Path, "")
			if seen[e.Path] {
				continue
			}
			seen[e.Path] = true
		}
		out = append(out, e)
	}
	return out
}

func errSite(want, got []refexec.Err) string {
	if CompareErrs(collapsed(want, got), got) == "" {
		return "scalar-list-element-errors-collapsed"
	}
	switch {
	case len(got) > len(want):
		return "extra-errors"
	case len(got) < len(want):
		return "missing-errors"
	}
	return "different-errors"
}

var echoPanicArg = regexp.MustCompile(`echo\(b: ?"BLOB_PANIC"`)

var plainCorpus = ops.Corpus

func runC01(rc *core.RunCtx) {
	t := rc.Tape
	v := pickVariant(rc, nil)
	if t.Bool(1, 6, "deferred-op") {
		runC01Deferred(rc, v)
		return
	}
	op := pickOp(rc, v, opSource{Corpus: plainCorpus, Gen: true, Mutation: true})
	plan := pickPlan(rc, false)
	// one run in five: some failing resolvers return one error VALUE that they share
	// (var ErrNotFound = gqlerror.Errorf(...)), as user code commonly does
	plan.SharedErrors = plan.ErrPM > 0 && t.Bool(1, 5, "shared-errors")
	cfg := Cfg{Variant: v, Op: op, Plan: plan, Sched: Sched(t.Choose(int(NumScheds), "sched")), CancelAt: -1, ParkDir: t.Bool(1, 2, "parkdir")}
	out := Execute(rc, cfg)
	ref, ok := checkAgainstReference(rc, cfg, out)
	if ref != nil {
		rc.W.CountN("ref_errors", len(ref.Errors))
		rc.W.CountN("resolver_calls", len(ref.Resolved))
		rc.W.CountN("directive_calls", len(ref.DirCalls))
		if ref.Data.IsNull() {
			rc.W.Count("data_null_root")
		}
	}
	rc.W.Count("variant_" + v.Name)
	rc.Res.Nontrivial = out.MaxEnabled >= 2 || (ref != nil && len(ref.Errors) > 0)
	rc.Res.Sig = sigOf(v.Name, op.Query, plan.Seed, plan.NullPM, plan.ErrPM, plan.DirPM, plan.MaxList, strings.Join(out.Sig, ","))
	if ok {
		rc.Res.Sample = map[string]any{"variant": v.Name, "op": op.Query, "vars": op.Vars, "plan": planDesc(plan), "sched": cfg.Sched.String(), "released": out.Sig, "data": out.Payloads[0].Raw, "errors": refexec.SortedErrs(out.Payloads[0].Errors)}
	}
}

// runC01Deferred: operations with @defer are valid operations too. Content is judged by the
// defer-aware reference (delivery order is C13's concern), and every failure user code really
// produced must have its entry in the errors of some payload.
func runC01Deferred(rc *core.RunCtx, v *uni.Variant) {
	t := rc.Tape
	// (one generated operation in five is a mutation: @defer below a mutation's root fields)
	op := pickOp(rc, v, opSource{Corpus: ops.DeferCorpus, Gen: true, Defer: true, Mutation: true})
	plan := pickPlan(rc, false)
	cfg := Cfg{Variant: v, Op: op, Plan: plan, Sched: Sched(t.Choose(int(NumScheds), "sched")), CancelAt: -1, ParkDir: t.Bool(1, 2, "parkdir")}
	out := Execute(rc, cfg)
	info, ok := checkDeferredOpt(rc, cfg, out, false)
	rc.W.Count("variant_" + v.Name)
	rc.W.Count("deferred_operations")
	rc.Res.Nontrivial = info != nil && info.Incremental > 0
	rc.Res.Sig = sigOf("defer", v.Name, op.Query, plan.Seed, plan.NullPM, plan.ErrPM, plan.DirPM, plan.MaxList, strings.Join(out.Sig, ","))
	if !ok {
		return
	}
	var all []refexec.Err
	for _, p := range out.Payloads {
		all = append(all, p.Errors...)
	}
	raised := out.U.Raised()
	rc.W.CountN("raised_failures", len(raised))
	if missing := extraErrs(all, raised); len(missing) > 0 {
		var sb strings.Builder
		for i, p := range out.Payloads {
			fmt.Fprintf(&sb, "\n  [%d] path=%q label=%q data=%s errors=%v", i, p.Path, p.Label, p.Raw, refexec.SortedErrs(p.Errors))
		}
		rc.Fail("originating-failure-not-reported", "deferred", "failures %q were produced by resolvers/directives but no payload reports them\nvariant=%s sched=%s op=%q plan=%v\npayloads:%s", missing, v.Name, cfg.Sched, op.Query, planDesc(plan), sb.String())
		return
	}
	rc.Res.Sample = map[string]any{"variant": v.Name, "op": op.Query, "plan": planDesc(plan), "sched": cfg.Sched.String(), "payloads": len(out.Payloads), "raised_failures": len(raised)}
}

func runC06(rc *core.RunCtx) {
	v := pickVariant(rc, nil)
	op := pickOp(rc, v, opSource{Corpus: plainCorpus, Gen: true, Mutation: true})
	plan := pickPlan(rc, false)
	scheds := []Sched{SchedFirst, SchedLast, SchedDeepest, SchedRandom, SchedBurst, SchedRandom}
	var first *Out
	var firstData, firstErrs string
	var sigs []string
	maxEnabled := 0
	for i, s := range scheds {
		cfg := Cfg{Variant: v, Op: op, Plan: plan, Sched: s, CancelAt: -1, ParkDir: i%2 == 1}
		out := Execute(rc, cfg)
		ref, ok := checkAgainstReference(rc, cfg, out)
		if !ok {
			return
		}
		if out.MaxEnabled > maxEnabled {
			maxEnabled = out.MaxEnabled
		}
		p := out.Payloads[0]
		data, errs := p.Data.Canon(), strings.Join(refexec.SortedErrs(p.Errors), "\n")
		if first == nil {
			first, firstData, firstErrs = out, data, errs
		} else if data != firstData || errs != firstErrs {
			rc.Fail("schedule-dependent-result", "response", "op=%q: schedule %s gives\n%s\n%s\nbut schedule first gives\n%s\n%s", op.Query, s, data, errs, firstData, firstErrs)
			return
		}
		if out.Operation.Operation == ast.Mutation {
			if out.MutOverlap != "" {
				rc.Fail("mutation-not-serial", "overlap", "op=%q sched=%s: %s", op.Query, s, out.MutOverlap)
				return
			}
			var want []string
			for _, r := range ref.Resolved {
				if !strings.ContainsAny(r, ".[") {
					want = append(want, r)
				}
			}
			if strings.Join(want, ",") != strings.Join(out.MutOrder, ",") {
				rc.Fail("mutation-not-serial", "order", "op=%q sched=%s: root fields ran in order %v, document order is %v", op.Query, s, out.MutOrder, want)
				return
			}
			rc.W.Count("mutation_execs")
		}
		sigs = append(sigs, strings.Join(out.Sig, ","))
		rc.W.Count("sched_" + s.String())
	}
	rc.W.Count("variant_" + v.Name)
	rc.Res.Nontrivial = maxEnabled >= 2
	rc.Res.Sig = sigOf(v.Name, op.Query, plan.Seed, plan.NullPM, plan.ErrPM, plan.MaxList, strings.Join(sigs, ";"))
	rc.Res.Sample = map[string]any{"variant": v.Name, "op": op.Query, "plan": planDesc(plan), "schedules": sigs, "data": first.Payloads[0].Raw}
}

func copyPlan(p *refexec.Plan) *refexec.Plan {
	c := *p
	c.Faults = map[string]refexec.Kind{}
	c.DirFaults = map[string]refexec.DirKind{}
	c.IcptFaults = map[string]refexec.Kind{}
	c.RootIcptPanics = map[string]bool{}
	for k, v := range p.IcptFaults {
		c.IcptFaults[k] = v
	}
	for k, v := range p.RootIcptPanics {
		c.RootIcptPanics[k] = v
	}
	for k, v := range p.Faults {
		c.Faults[k] = v
	}
	for k, v := range p.DirFaults {
		c.DirFaults[k] = v
	}
	return &c
}

type faultPoint struct {
	Kind string // res | dir | marshal | eager
	Path string
}

func hasDefer(q string) bool { return strings.Contains(q, "@defer") }

// checkFaulted compares one execution under a fault overlay with the reference under the same
// overlay, including the RecoverFunc count.
func checkFaulted(rc *core.RunCtx, cfg Cfg, out *Out, what string) bool {
	if hasDefer(cfg.Op.Query) && !cfg.ViaHTTP {
		_, ok := checkDeferredOpt(rc, cfg, out, false)
		return ok
	}
	ref, ok := checkAgainstReference(rc, cfg, out)
	if !ok {
		if rc.Res.Violation != nil {
			rc.Res.Violation.Detail = what + "\n" + rc.Res.Violation.Detail
		}
		return false
	}
	if out.Recovered != ref.Panics {
		rc.Fail("recover-count", "recover", "%s: RecoverFunc invoked %d times for %d injected panics; op=%q plan=%v", what, out.Recovered, ref.Panics, cfg.Op.Query, planDesc(cfg.Plan))
		return false
	}
	return true
}

func runC04(rc *core.RunCtx) {
	t := rc.Tape
	v := pickVariant(rc, nil)
	var op ops.Op
	switch t.Choose(6, "opsrc") {
	case 0, 1:
		op = pickOp(rc, v, opSource{Corpus: plainCorpus, Gen: true, Mutation: true})
	case 2:
		op = ops.FaultArgCorpus[t.Choose(len(ops.FaultArgCorpus), "op")]
	case 3:
		op = ops.BlobCorpus[t.Choose(len(ops.BlobCorpus), "op")]
	case 4:
		op = ops.DeferCorpus[t.Choose(len(ops.DeferCorpus), "op")]
	default:
		op = pickOp(rc, v, opSource{Corpus: ops.DeferCorpus, Gen: true, Defer: true})
	}
	base := pickPlan(rc, true)
	base.NullPM = []int{0, 100}[t.Choose(2, "nullpm")]
	srv := NewServer(rc, v, base)
	deferOp := hasDefer(op.Query)
	// an argument of echo (the one field with a custom complexity function) whose unmarshaler panics
	panicArgOnEcho := echoPanicArg.MatchString(op.Query) || (strings.Contains(op.Query, "echo(b:$") && strings.Contains(fmt.Sprint(op.Vars), "BLOB_PANIC"))
	complexityOn := t.Bool(1, 4, "complexity-limit") && !(deferOp && panicArgOnEcho)
	if complexityOn {
		// a complexity limit nothing comes near: the extension still evaluates the arguments of
		// fields with a custom complexity function (through the same unmarshalers) before
		// execution starts
		srv.Ex.Use(extension.FixedComplexityLimit(1 << 30))
		srv.H.Use(extension.FixedComplexityLimit(1 << 30))
		rc.W.Count("complexity_limit_runs")
	}
	srv.StockRecover = !deferOp && t.Bool(1, 8, "stock-recover")
	if srv.StockRecover {
		rc.W.Count("stock_recover_runs")
	}
	mk := func(plan *refexec.Plan) Cfg {
		c := Cfg{Variant: v, Op: op, Plan: plan, Server: srv, Sched: Sched(t.Choose(int(NumScheds), "sched")), CancelAt: -1, ParkDir: t.Bool(1, 3, "parkdir")}
		if !deferOp {
			c.ViaHTTP = t.Bool(1, 3, "http")
		}
		if complexityOn && panicArgOnEcho {
			// the panic is raised while the operation context is being created: only a server
			// (handler.Server recovers there) can be asked, not the bare executor
			c.ViaHTTP = true
		}
		return c
	}
	cfg0 := mk(base)
	out0 := Execute(rc, cfg0)
	if complexityOn && panicArgOnEcho {
		if j, err := parsers.ParseJSON([]byte(out0.HTTPBody)); err == nil && j.K == parsers.Obj {
			if d := j.Get("data"); (d == nil || d.IsNull()) && out0.HTTPStatus != 200 {
				rc.Fail("argument-panic-not-contained", "complexity-extension", "with a complexity limit installed, the panicking unmarshaler of one argument fails the whole request (status %d) instead of that field; op=%q\nbody %s", out0.HTTPStatus, op.Query, out0.HTTPBody)
				return
			}
		}
	}
	if !checkFaulted(rc, cfg0, out0, "fault-free pass") {
		return
	}
	ref0 := Reference(out0)
	var points []faultPoint
	for _, p := range ref0.Resolved {
		points = append(points, faultPoint{"res", p})
	}
	for _, p := range ref0.DirCalls {
		points = append(points, faultPoint{"dir", p})
	}
	// the field interceptor (AroundFields) at every resolver-backed position, and the root-field
	// interceptor (AroundRootFields) at every root field that ran
	for _, p := range ref0.Resolved {
		points = append(points, faultPoint{"icpt", p})
		if !strings.ContainsAny(p, ".[") {
			points = append(points, faultPoint{"rooticpt", p})
		}
	}
	// values completed through a user marshal function (scalar Tag, enum Tone; single, and each
	// list element): the function panics while the value is completed
	for _, p := range ref0.EagerPoints {
		points = append(points, faultPoint{"eager", p})
	}
	// values written by a context-aware marshaler: it returns an error before writing, or after
	// writing half of its output
	if !deferOp {
		for _, p := range ref0.CtxPoints {
			points = append(points, faultPoint{"ctxerr", p}, faultPoint{"ctxpartial", p})
		}
	}
	// serialisation-time fault points: Blob-valued resolver positions that produced a value
	if !deferOp {
		for _, p := range ref0.Resolved {
			if j := ref0.Data.At(p); j != nil && j.K == parsers.Str && strings.HasPrefix(j.S, "blob-") {
				points = append(points, faultPoint{"marshal", p})
			}
		}
	}
	rc.W.CountN("fault_points", len(points))
	nexec := 1
	apply := func(plan *refexec.Plan, fp faultPoint, panicKind bool) string {
		switch fp.Kind {
		case "res":
			if panicKind {
				plan.Faults[fp.Path] = refexec.KPanic
				return "resolver panic at " + fp.Path
			}
			plan.Faults[fp.Path] = refexec.KError
			return "resolver error at " + fp.Path
		case "dir":
			if panicKind {
				plan.DirFaults[fp.Path] = refexec.DPanic
				return "directive panic at " + fp.Path
			}
			plan.DirFaults[fp.Path] = refexec.DError
			return "directive error at " + fp.Path
		case "icpt":
			if panicKind {
				plan.IcptFaults[fp.Path] = refexec.KPanic
				return "field interceptor panic at " + fp.Path
			}
			plan.IcptFaults[fp.Path] = refexec.KError
			return "field interceptor error at " + fp.Path
		case "rooticpt":
			plan.RootIcptPanics[fp.Path] = true
			return "root-field interceptor panic at " + fp.Path
		case "ctxerr":
			plan.Faults[fp.Path] = refexec.KCtxMarshalErr
			return "context marshaler error at " + fp.Path
		case "ctxpartial":
			plan.Faults[fp.Path] = refexec.KCtxMarshalPartial
			return "context marshaler error after a partial write at " + fp.Path
		}
		plan.Faults[fp.Path] = refexec.KMarshalPanic
		if fp.Kind == "eager" {
			return "marshal function panic at " + fp.Path
		}
		return "marshaler panic at " + fp.Path
	}
	for _, fp := range points {
		for _, panicKind := range []bool{false, true} {
			if (fp.Kind == "marshal" || fp.Kind == "eager" || fp.Kind == "rooticpt" || fp.Kind == "ctxerr" || fp.Kind == "ctxpartial") && !panicKind {
				continue
			}
			plan := copyPlan(base)
			what := apply(plan, fp, panicKind)
			cfg := mk(plan)
			if fp.Kind == "marshal" || fp.Kind == "ctxpartial" {
				cfg.ViaHTTP = true
			}
			out := Execute(rc, cfg)
			nexec++
			rc.W.Count("fault_" + fp.Kind + map[bool]string{false: "_error", true: "_panic"}[panicKind])
			if fp.Kind == "marshal" {
				if !checkMarshalPanic(rc, cfg, out, what) {
					return
				}
				continue
			}
			if fp.Kind == "ctxpartial" {
				// the data of this response is not JSON any more: it fails as a whole, with a
				// well-formed error body (and the server keeps serving: follow-up below)
				j, err := parsers.ParseJSON([]byte(out.HTTPBody))
				if out.Stuck || err != nil || j.K != parsers.Obj || j.Get("errors") == nil {
					rc.Fail("serialisation-failure-body", "partial-write", "%s: status %d body %q", what, out.HTTPStatus, out.HTTPBody)
					return
				}
				if d := j.Get("data"); d != nil && !d.IsNull() {
					// ... or the failure is contained after all: then exactly that position is
					// null with one error at its path, like a marshaler that failed before writing
					plan.Faults[fp.Path] = refexec.KCtxMarshalErr
					pl := ParseBody(out.HTTPBody)
					for i := range pl.Errors {
						if pl.Errors[i].Class == "C:partial" {
							pl.Errors[i].Class = "C:error"
						}
					}
					ref := Reference(out)
					if pl.Data.Canon() != ref.Data.Canon() || CompareErrs(ref.Errors, pl.Errors) != "" {
						rc.Fail("serialisation-failure-body", "partial-write-contained-wrongly", "%s: status %d body %q\nexpected data %s errors %v", what, out.HTTPStatus, out.HTTPBody, ref.Data.Canon(), refexec.SortedErrs(ref.Errors))
						return
					}
				}
				continue
			}
			if !checkFaulted(rc, cfg, out, what) {
				return
			}
		}
	}
	// seeded multi-fault sets
	if len(points) >= 2 {
		for n := 0; n < 3; n++ {
			plan := copyPlan(base)
			var whats []string
			k := 2 + t.Choose(3, "nfaults")
			for j := 0; j < k; j++ {
				fp := points[t.Choose(len(points), "point")]
				if fp.Kind == "marshal" || fp.Kind == "ctxpartial" {
					continue
				}
				whats = append(whats, apply(plan, fp, t.Bool(1, 2, "panic?")))
			}
			cfg := mk(plan)
			out := Execute(rc, cfg)
			nexec++
			rc.W.Count("fault_multi")
			if !checkFaulted(rc, cfg, out, strings.Join(whats, " + ")) {
				return
			}
		}
	}
	// the same server keeps serving: fault-free request again
	cfgN := mk(base)
	outN := Execute(rc, cfgN)
	if !checkFaulted(rc, cfgN, outN, "follow-up fault-free request on the same server") {
		return
	}
	rc.W.CountN("executions", nexec+1)
	rc.W.Count("variant_" + v.Name)
	rc.Res.Nontrivial = len(points) > 0
	rc.Res.Sig = sigOf(v.Name, op.Query, base.Seed, base.NullPM, base.MaxList)
	rc.Res.Sample = map[string]any{"variant": v.Name, "op": op.Query, "vars": op.Vars, "plan": planDesc(base), "fault_points": points, "executions": nexec + 1}
}

// checkMarshalPanic: a panic while serialising must fail only that response, with a well-formed
// error body, one RecoverFunc call, and the server must keep serving (checked by the caller).
func checkMarshalPanic(rc *core.RunCtx, cfg Cfg, out *Out, what string) bool {
	if out.Stuck {
		rc.Fail("stuck", out.StuckSite, "%s: request did not finish; op=%q\n%s", what, cfg.Op.Query, out.StuckDump)
		return false
	}
	j, err := parsers.ParseJSON([]byte(out.HTTPBody))
	if err != nil || j.K != parsers.Obj {
		rc.Fail("serialisation-panic-body", "not-json", "%s: body is not a JSON object (%v): %q", what, err, out.HTTPBody)
		return false
	}
	es := j.Get("errors")
	if es == nil || es.K != parsers.Arr || len(es.A) == 0 {
		rc.Fail("serialisation-panic-body", "no-errors", "%s: body has no errors list: %q", what, out.HTTPBody)
		return false
	}
	// other injected panics of the same request (argument unmarshalers) are recovered too
	want := 1
	if out.Doc != nil && out.Operation != nil {
		want += Reference(out).Panics
	}
	if out.Recovered != want {
		rc.Fail("recover-count", "recover", "%s: RecoverFunc invoked %d times, expected %d (one serialisation panic plus the request's other injected panics)", what, out.Recovered, want)
		return false
	}
	return true
}

func runC05(rc *core.RunCtx) {
	t := rc.Tape
	v := pickVariant(rc, nil)
	var op ops.Op
	switch t.Choose(4, "opsrc") {
	case 0:
		op = ops.DeferCorpus[t.Choose(len(ops.DeferCorpus), "op")]
	case 1:
		op = pickOp(rc, v, opSource{Corpus: ops.DeferCorpus, Gen: true, Defer: true})
	default:
		op = pickOp(rc, v, opSource{Corpus: plainCorpus, Gen: true, Mutation: true})
	}
	plan := pickPlan(rc, false)
	plan.MaxList = []int{2, 5, 1, 3}[t.Choose(4, "maxlist2")]
	deferOp := hasDefer(op.Query)
	mk := func(cancelAt int) Cfg {
		c := Cfg{Variant: v, Op: op, Plan: plan, Sched: Sched(t.Choose(int(NumScheds), "sched")), CancelAt: cancelAt,
			CtxMode: uniCtx(t.Choose(2, "ctxmode")), ParkDir: t.Bool(1, 3, "parkdir")}
		switch t.Choose(3, "transport") {
		case 1:
			c.ViaHTTP = true
		case 2:
			c.Single = true
		}
		return c
	}
	endCheck := func(cfg Cfg, out *Out, what string) bool {
		if out.Stuck {
			rc.Fail("stuck", out.StuckSite, "%s: every resolver has returned but the request does not finish; variant=%s op=%q sched=%s http=%v single=%v\n%s", what, v.Name, op.Query, cfg.Sched, cfg.ViaHTTP, cfg.Single, out.StuckDump)
			return false
		}
		leaks := EndOfLife(rc)
		if len(leaks) > 0 {
			rc.Fail("goroutine-left-behind", leaks[0].TopSUTFrame(), "%s: %d goroutine(s) alive after the request ended and its context was cancelled; variant=%s op=%q http=%v single=%v\n%s", what, len(leaks), v.Name, op.Query, cfg.ViaHTTP, cfg.Single, leaks[0].Raw)
			return false
		}
		return true
	}
	cfg0 := mk(-1)
	out0 := Execute(rc, cfg0)
	if !endCheck(cfg0, out0, "no cancellation") {
		return
	}
	K := out0.Quiescent
	rc.W.CountN("cancel_points", K+2)
	for k := 0; k <= K+1; k++ {
		cfg := mk(k)
		out := Execute(rc, cfg)
		if out.Cancelled {
			rc.W.Count("cancelled_midflight")
		}
		if !endCheck(cfg, out, fmt.Sprintf("context cancelled at quiescent point %d of %d", k, K)) {
			return
		}
	}
	rc.W.Count("variant_" + v.Name)
	if deferOp {
		rc.W.Count("defer_ops")
	}
	rc.Res.Nontrivial = K >= 2
	rc.Res.Sig = sigOf(v.Name, op.Query, plan.Seed, plan.NullPM, plan.ErrPM, plan.MaxList)
	rc.Res.Sample = map[string]any{"variant": v.Name, "op": op.Query, "plan": planDesc(plan), "cancel_points": K + 2}
}

func uniCtx(i int) uni.CtxMode { return uni.CtxMode(i) }

func runC13(rc *core.RunCtx) {
	t := rc.Tape
	v := pickVariant(rc, nil)
	op := pickOp(rc, v, opSource{Corpus: ops.DeferCorpus, Gen: true, Defer: true})
	plan := pickPlan(rc, false)
	cfg := Cfg{Variant: v, Op: op, Plan: plan, Sched: Sched(t.Choose(int(NumScheds), "sched")), CancelAt: -1, ParkDir: t.Bool(1, 3, "parkdir")}
	out := Execute(rc, cfg)
	info, ok := checkDeferred(rc, cfg, out)
	if info != nil {
		rc.W.CountN("incremental_payloads", info.Incremental)
		rc.W.CountN("failed_groups", info.FailedGroups)
		rc.W.CountN("payload_before_object", info.OutOfOrder)
		if info.ErrorsSubset {
			rc.W.Count("errors_strict_subset")
		}
		if info.Incremental > 0 {
			rc.W.Count("ops_with_groups")
		}
	}
	rc.W.Count("variant_" + v.Name)
	rc.Res.Nontrivial = info != nil && info.Incremental > 0
	rc.Res.Sig = sigOf(v.Name, op.Query, plan.Seed, plan.NullPM, plan.ErrPM, plan.DirPM, plan.MaxList, strings.Join(out.Sig, ","))
	if ok {
		var ps []map[string]any
		for _, p := range out.Payloads {
			ps = append(ps, map[string]any{"path": p.Path, "label": p.Label, "data": p.Raw, "errors": refexec.SortedErrs(p.Errors)})
		}
		rc.Res.Sample = map[string]any{"variant": v.Name, "op": op.Query, "plan": planDesc(plan), "sched": cfg.Sched.String(), "payloads": ps}
	}
}

// SigOf is exported for the other scenarios.
func SigOf(parts ...any) string { return sigOf(parts...) }
