package execsim

import (
	"crypto/sha256"
	"encoding/hex"
	"fmt"
	"strings"

	"github.com/vektah/gqlparser/v2/ast"

	"verifsim/core"
	"verifsim/ops"
	"verifsim/probereg"
	"verifsim/refexec"
	"verifsim/uni"
)

// Run is the scenario body; the property decides workload and oracle.
func Run(rc *core.RunCtx) {
	switch rc.Property {
	case "C01":
		runC01(rc)
	case "C04":
		runC04(rc)
	case "C05":
		runC05(rc)
	case "C06":
		runC06(rc)
	case "C13":
		runC13(rc)
	default:
		rc.Fail("config", "harness", "execsim does not serve property %q", rc.Property)
	}
}

func variants(want func(name string) bool) []*uni.Variant {
	var out []*uni.Variant
	for i := range probereg.Core {
		if want == nil || want(probereg.Core[i].Name) {
			out = append(out, &probereg.Core[i])
		}
	}
	return out
}

func pickVariant(rc *core.RunCtx, want func(string) bool) *uni.Variant {
	vs := variants(want)
	if len(vs) == 0 {
		vs = variants(nil)
	}
	return vs[rc.Tape.Choose(len(vs), "variant")]
}

// schemaOf returns the probe schema (identical for all variants).
func schemaOf(rc *core.RunCtx, v *uni.Variant) *ast.Schema {
	u := uni.New(rc.W, v, &refexec.Plan{})
	return u.Schema
}

type opSource struct {
	Corpus   []ops.Op
	Gen      bool
	Defer    bool
	Mutation bool // generated mutations too
}

func pickOp(rc *core.RunCtx, v *uni.Variant, src opSource) ops.Op {
	t := rc.Tape
	if src.Gen && t.Bool(1, 2, "gen?") {
		o := ops.GenOpts{Depth: 1 + t.Choose(4, "depth"), Defer: src.Defer}
		if src.Mutation && t.Bool(1, 5, "mutation?") {
			o.Mutation = true
		}
		op, discarded, ok := ops.Generate(schemaOf(rc, v), t, o)
		rc.W.CountN("gen_discarded", discarded)
		if ok {
			rc.W.Count("gen_ops")
			return op
		}
		rc.W.Count("gen_gaveup")
	}
	rc.W.Count("corpus_ops")
	return src.Corpus[t.Choose(len(src.Corpus), "op")]
}

func pickPlan(rc *core.RunCtx, faultsOnly bool) *refexec.Plan {
	t := rc.Tape
	p := &refexec.Plan{Seed: uint64(t.Choose(1<<20, "planseed")), MaxList: []int{3, 2, 5, 1}[t.Choose(4, "maxlist")]}
	if !faultsOnly {
		p.NullPM = []int{0, 100, 250}[t.Choose(3, "nullpm")]
		p.ErrPM = []int{0, 80, 200}[t.Choose(3, "errpm")]
		p.DirPM = []int{0, 300}[t.Choose(2, "dirpm")]
	}
	return p
}

func sigOf(parts ...any) string {
	h := sha256.New()
	for _, p := range parts {
		fmt.Fprintf(h, "%v|", p)
	}
	return hex.EncodeToString(h.Sum(nil))[:16]
}

func planDesc(p *refexec.Plan) map[string]any {
	return map[string]any{"seed": p.Seed, "null_pm": p.NullPM, "err_pm": p.ErrPM, "dir_pm": p.DirPM, "max_list": p.MaxList, "faults": p.Faults, "dir_faults": p.DirFaults}
}

// checkAgainstReference is the C01 oracle on a finished single-payload execution.
func checkAgainstReference(rc *core.RunCtx, cfg Cfg, out *Out) (ref *refexec.Result, ok bool) {
	if len(out.GateErrs) > 0 {
		rc.Fail("valid-operation-rejected", "gate", "op %q rejected: %v", cfg.Op.Query, out.GateErrs)
		return nil, false
	}
	if out.Stuck {
		rc.Fail("stuck", out.StuckSite, "operation did not finish although nothing is parked; op=%q sched=%s\n%s", cfg.Op.Query, cfg.Sched, out.StuckDump)
		return nil, false
	}
	if len(out.Payloads) != 1 {
		rc.Fail("payload-count", "response", "expected one payload, got %d; op=%q", len(out.Payloads), cfg.Op.Query)
		return nil, false
	}
	p := out.Payloads[0]
	if p.JSONErr != "" {
		rc.Fail("invalid-json", jsonSite(p.JSONErr), "data is not valid JSON (%s): %s\nvariant=%s op=%q", p.JSONErr, p.Raw, cfg.Variant.Name, cfg.Op.Query)
		return nil, false
	}
	ref = Reference(out)
	if got, want := p.Data.Canon(), ref.Data.Canon(); got != want {
		rc.Fail("data-mismatch", dataSite(want, got), "variant=%s sched=%s op=%q plan=%v\nexpected %s\ngot      %s", cfg.Variant.Name, cfg.Sched, cfg.Op.Query, planDesc(cfg.Plan), want, got)
		return ref, false
	}
	if d := CompareErrs(ref.Errors, p.Errors); d != "" {
		rc.Fail("errors-mismatch", errSite(ref.Errors, p.Errors), "variant=%s sched=%s op=%q plan=%v\n%s\ndata %s", cfg.Variant.Name, cfg.Sched, cfg.Op.Query, planDesc(cfg.Plan), d, p.Raw)
		return ref, false
	}
	return ref, true
}

// jsonSite keeps the kind of JSON defect (and the key for duplicates) but no positions.
func jsonSite(msg string) string {
	if i := strings.Index(msg, " at "); i >= 0 {
		msg = msg[:i]
	}
	return strings.ReplaceAll(msg, " ", "-")
}

// dataSite classifies a data mismatch coarsely (for fingerprints): which side is null-er.
func dataSite(want, got string) string {
	switch {
	case want == "null" && got != "null":
		return "root-not-nulled"
	case got == "null":
		return "root-nulled"
	case len(got) < len(want):
		return "less-data"
	case len(got) > len(want):
		return "more-data"
	}
	return "different-data"
}

func errSite(want, got []refexec.Err) string {
	switch {
	case len(got) > len(want):
		return "extra-errors"
	case len(got) < len(want):
		return "missing-errors"
	}
	return "different-errors"
}

var plainCorpus = ops.Corpus

func runC01(rc *core.RunCtx) {
	t := rc.Tape
	v := pickVariant(rc, nil)
	op := pickOp(rc, v, opSource{Corpus: plainCorpus, Gen: true, Mutation: true})
	plan := pickPlan(rc, false)
	cfg := Cfg{Variant: v, Op: op, Plan: plan, Sched: Sched(t.Choose(int(NumScheds), "sched")), CancelAt: -1, ParkDir: t.Bool(1, 2, "parkdir")}
	out := Execute(rc, cfg)
	ref, ok := checkAgainstReference(rc, cfg, out)
	if ref != nil {
		rc.W.CountN("ref_errors", len(ref.Errors))
		rc.W.CountN("resolver_calls", len(ref.Resolved))
		rc.W.CountN("directive_calls", len(ref.DirCalls))
		if ref.Data.IsNull() {
			rc.W.Count("data_null_root")
		}
	}
	rc.W.Count("variant_" + v.Name)
	rc.Res.Nontrivial = out.MaxEnabled >= 2 || (ref != nil && len(ref.Errors) > 0)
	rc.Res.Sig = sigOf(v.Name, op.Query, plan.Seed, plan.NullPM, plan.ErrPM, plan.DirPM, plan.MaxList, strings.Join(out.Sig, ","))
	if ok {
		rc.Res.Sample = map[string]any{"variant": v.Name, "op": op.Query, "vars": op.Vars, "plan": planDesc(plan), "sched": cfg.Sched.String(), "released": out.Sig, "data": out.Payloads[0].Raw, "errors": refexec.SortedErrs(out.Payloads[0].Errors)}
	}
}

func runC06(rc *core.RunCtx) {
	v := pickVariant(rc, nil)
	op := pickOp(rc, v, opSource{Corpus: plainCorpus, Gen: true, Mutation: true})
	plan := pickPlan(rc, false)
	scheds := []Sched{SchedFirst, SchedLast, SchedDeepest, SchedRandom, SchedBurst, SchedRandom}
	var first *Out
	var firstData, firstErrs string
	var sigs []string
	maxEnabled := 0
	for i, s := range scheds {
		cfg := Cfg{Variant: v, Op: op, Plan: plan, Sched: s, CancelAt: -1, ParkDir: i%2 == 1}
		out := Execute(rc, cfg)
		ref, ok := checkAgainstReference(rc, cfg, out)
		if !ok {
			return
		}
		if out.MaxEnabled > maxEnabled {
			maxEnabled = out.MaxEnabled
		}
		p := out.Payloads[0]
		data, errs := p.Data.Canon(), strings.Join(refexec.SortedErrs(p.Errors), "\n")
		if first == nil {
			first, firstData, firstErrs = out, data, errs
		} else if data != firstData || errs != firstErrs {
			rc.Fail("schedule-dependent-result", "response", "op=%q: schedule %s gives\n%s\n%s\nbut schedule first gives\n%s\n%s", op.Query, s, data, errs, firstData, firstErrs)
			return
		}
		if out.Operation.Operation == ast.Mutation {
			if out.MutOverlap != "" {
				rc.Fail("mutation-not-serial", "overlap", "op=%q sched=%s: %s", op.Query, s, out.MutOverlap)
				return
			}
			var want []string
			for _, r := range ref.Resolved {
				if !strings.ContainsAny(r, ".[") {
					want = append(want, r)
				}
			}
			if strings.Join(want, ",") != strings.Join(out.MutOrder, ",") {
				rc.Fail("mutation-not-serial", "order", "op=%q sched=%s: root fields ran in order %v, document order is %v", op.Query, s, out.MutOrder, want)
				return
			}
			rc.W.Count("mutation_execs")
		}
		sigs = append(sigs, strings.Join(out.Sig, ","))
		rc.W.Count("sched_" + s.String())
	}
	rc.W.Count("variant_" + v.Name)
	rc.Res.Nontrivial = maxEnabled >= 2
	rc.Res.Sig = sigOf(v.Name, op.Query, plan.Seed, plan.NullPM, plan.ErrPM, plan.MaxList, strings.Join(sigs, ";"))
	rc.Res.Sample = map[string]any{"variant": v.Name, "op": op.Query, "plan": planDesc(plan), "schedules": sigs, "data": first.Payloads[0].Raw}
}

func runC04(rc *core.RunCtx) { rc.Fail("config", "harness", "not built yet") }
func runC05(rc *core.RunCtx) { rc.Fail("config", "harness", "not built yet") }
func runC13(rc *core.RunCtx) { rc.Fail("config", "harness", "not built yet") }
