// Package streamsim is the streamed-HTTP simulation for C12: SSE and multipart/mixed responses
// under seeded timing of payload production, keep-alive / flush ticks, slow and disconnecting
// clients. The produced bytes are parsed by strict independent parsers and compared with the
// payloads recorded by an innermost response interceptor.
package streamsim

import (
	"bytes"
	"context"
	"encoding/json"
	"fmt"
	"io"
	"math"
	"mime"
	"mime/multipart"
	"net/http/httptest"
	"reflect"
	"strings"
	"sync"
	"sync/atomic"
	"testing/synctest"
	"time"

	"github.com/99designs/gqlgen/graphql"
	"github.com/99designs/gqlgen/graphql/handler"
	"github.com/99designs/gqlgen/graphql/handler/transport"
	"github.com/vektah/gqlparser/v2/ast"

	"verifsim/core"
	"verifsim/execsim"
	"verifsim/ops"
	"verifsim/parsers"
	"verifsim/probereg"
	"verifsim/refexec"
	"verifsim/simhttp"
	"verifsim/uni"
)

var hookOnce sync.Once

// source is a harness-owned subscription source.
type source struct {
	ch      reflect.Value // bidirectional chan
	elem    reflect.Type
	gql     *ast.Type
	path    string
	ctx     context.Context
	sent    int
	pending bool
	closed  bool
	retract chan struct{}
}

func Run(rc *core.RunCtx) {
	t := rc.Tape
	w := rc.W
	v := &probereg.Core[t.Choose(len(probereg.Core), "variant")]
	plan := &refexec.Plan{Seed: uint64(t.Choose(1<<16, "planseed")), MaxList: 2, NullPM: []int{0, 100}[t.Choose(2, "nullpm")], ErrPM: []int{0, 100}[t.Choose(2, "errpm")]}
	u := uni.New(w, v, plan)
	v.SetBlobHook(execsim.BlobHook)
	sse := t.Choose(2, "transport") == 0
	// one run in eight: the custom scalar of me.blob panics while the payload is serialised, i.e.
	// the panic escapes the response function into the transport
	marshalPanic := t.Bool(1, 8, "marshal-panic") || (rc.Property == "C04" && t.Bool(1, 2, "marshal-panic-c04"))
	if marshalPanic {
		plan.NullPM, plan.ErrPM = 0, 0
		plan.Faults = map[string]refexec.Kind{"me.blob": refexec.KMarshalPanic}
	}

	var src *source
	var smu sync.Mutex
	u.Stream = func(ctx context.Context, path string, chanType reflect.Type, fd *ast.FieldDefinition) (reflect.Value, error) {
		ch := reflect.MakeChan(reflect.ChanOf(reflect.BothDir, chanType.Elem()), 0)
		smu.Lock()
		src = &source{ch: ch, elem: chanType.Elem(), gql: fd.Type, path: path, ctx: ctx, retract: make(chan struct{})}
		smu.Unlock()
		return ch.Convert(chanType), nil
	}

	// operation
	var op ops.Op
	subscription := false
	nEmit := 0
	if sse {
		switch t.Choose(4, "opkind") {
		case 0:
			op = ops.SubCorpus[t.Choose(len(ops.SubCorpus), "op")]
			subscription = true
			nEmit = t.Choose(7, "nemit")
		case 1:
			op = ops.DeferCorpus[t.Choose(len(ops.DeferCorpus), "op")]
		case 2:
			op = ops.Corpus[t.Choose(len(ops.Corpus), "op")]
		default:
			op = ops.Op{Query: `{ nope }`} // gate error path
		}
	} else {
		if t.Bool(1, 6, "plain") {
			op = ops.Corpus[t.Choose(len(ops.Corpus), "op")]
		} else {
			op = ops.DeferCorpus[t.Choose(len(ops.DeferCorpus), "op")]
		}
	}

	if marshalPanic {
		op = ops.Op{Query: `{ me { id blob } hello }`}
		subscription, nEmit = false, 0
	}
	// one run in ten: user code attaches an extension value that encoding/json cannot encode, so
	// the transport itself fails while it assembles the payload (first request only)
	var badExtension atomic.Bool
	if !marshalPanic && (t.Bool(1, 10, "bad-extension") || rc.Property == "C04") {
		badExtension.Store(true)
		marshalPanic = true // judged the same way: end-of-life checks, then a follow-up request
		subscription, nEmit = false, 0
		if sse {
			op = ops.Corpus[t.Choose(len(ops.Corpus), "op")]
		}
	}
	var interval time.Duration
	srv := handler.New(u.ES)
	if sse {
		interval = []time.Duration{0, 10 * time.Second, time.Millisecond, 2 * time.Microsecond}[t.Choose(4, "interval")]
		srv.AddTransport(transport.SSE{KeepAlivePingInterval: interval})
	} else {
		interval = []time.Duration{time.Millisecond, 5 * time.Millisecond, 50 * time.Millisecond}[t.Choose(3, "delivery")]
		mm := transport.MultipartMixed{DeliveryTimeout: interval}
		if t.Bool(1, 2, "boundary") {
			mm.Boundary = "graphql"
		}
		srv.AddTransport(mm)
	}
	srv.SetRecoverFunc(func(ctx context.Context, err any) error { return fmt.Errorf("recovered:%v", err) })
	var recorded []string
	var rmu sync.Mutex
	srv.AroundResponses(func(ctx context.Context, next graphql.ResponseHandler) *graphql.Response {
		r := next(ctx)
		if r != nil && badExtension.Load() {
			// a value encoding/json refuses: the transport cannot serialise this payload
			r.Extensions = map[string]any{"bad": math.NaN()}
		}
		if r != nil {
			b, _ := json.Marshal(r)
			rmu.Lock()
			recorded = append(recorded, string(b))
			rmu.Unlock()
		}
		return r
	})

	// one run in twelve: an operation interceptor answers the operation itself, without calling
	// next (an auth gate): the transport gets a one-shot error response, and no executor context
	denied := !marshalPanic && t.Bool(1, 12, "denied")
	if denied {
		subscription, nEmit = false, 0
		srv.AroundOperations(func(ctx context.Context, next graphql.OperationHandler) graphql.ResponseHandler {
			resp := graphql.ErrorResponse(ctx, "X:unauthorized")
			b, _ := json.Marshal(resp)
			rmu.Lock()
			recorded = append(recorded, string(b))
			rmu.Unlock()
			return graphql.OneShot(resp)
		})
		w.Count("denied_by_operation_interceptor")
	}

	// lock grants: which goroutine wins a contended transport mutex is a tape decision
	core.SetCurrent(w)
	hookOnce.Do(func() {
		transport.SimLockHook = func(free func() bool) { core.ParkLock(core.GoroutineRole(), free) }
	})

	ctx, cancel := context.WithCancel(context.Background())
	defer cancel()
	body, _ := json.Marshal(map[string]any{"query": op.Query, "variables": op.Vars, "operationName": op.OpName})
	req := httptest.NewRequest("POST", "/query", bytes.NewReader(body)).WithContext(ctx)
	req.Header.Set("Content-Type", "application/json")
	if sse {
		req.Header.Set("Accept", "text/event-stream")
	} else {
		req.Header.Set("Accept", "multipart/mixed")
	}
	wr := simhttp.NewWriter(w, "w", true)
	done := make(chan struct{})
	go func() {
		defer close(done)
		srv.ServeHTTP(wr, req)
	}()

	allowDisconnect := t.Bool(1, 4, "may-disconnect")
	disconnected := false
	idleAdvances := 0
	finished := false
	splits := 0
	// never more than one tick per advance: a second tick would queue up behind the parked ticker
	// goroutine and later tie with its stop signal in a select that cannot be seeded
	menu := []time.Duration{interval, interval - time.Microsecond, interval + time.Microsecond, interval / 2, time.Microsecond}
	for step := 0; step < 600; step++ {
		synctest.Wait()
		w.NextStep()
		select {
		case <-done:
			finished = true
		default:
		}
		if finished {
			break
		}
		type action struct {
			kind string
			it   *core.Item
			d    time.Duration
		}
		var acts []action
		items := w.Parked()
		for _, it := range items {
			if it.Kind == "lock" && !it.Info.(func() bool)() {
				continue // mutex held: no grant
			}
			acts = append(acts, action{kind: "release", it: it})
		}
		smu.Lock()
		s := src
		smu.Unlock()
		if subscription && s != nil && !s.closed && !s.pending && s.ctx.Err() == nil {
			if s.sent < nEmit {
				acts = append(acts, action{kind: "emit"})
			} else {
				acts = append(acts, action{kind: "end"})
			}
		}
		workPending := len(acts) > 0
		// the clock only advances while gqlgen's ticker goroutine waits at its select: a tick that
		// piles up behind a parked write would later tie with ctx.Done() in a select whose
		// outcome Go does not let us seed
		tickerBusy := false
		for _, it := range items {
			if wi, ok := it.Info.(simhttp.WriteInfo); ok && core.IsTickerRole(wi.Role) {
				tickerBusy = true
			}
			if it.Kind == "lock" && core.IsTickerRole(it.Key) {
				tickerBusy = true
			}
		}
		if interval > 0 && !tickerBusy {
			acts = append(acts, action{kind: "sleep"})
		}
		// an emission the consumer did not take within one step is withdrawn (it is not waiting at
		// its select); a send left pending would tie with a later cancellation
		if s != nil && s.pending {
			close(s.retract)
			synctest.Wait()
			s.retract = make(chan struct{})
			continue
		}
		if allowDisconnect && !disconnected && workPending {
			acts = append(acts, action{kind: "disconnect"})
		}
		if len(acts) == 0 {
			site, dump := core.StuckSite()
			rc.Fail("stuck", site, "stream not finished but nothing is enabled; op=%q\n%s", op.Query, dump)
			return
		}
		if !workPending {
			idleAdvances++
			if idleAdvances > 12 {
				site, dump := core.StuckSite()
				rc.Fail("stuck", site, "stream not finished after the workload ended and 12 clock advances; op=%q\n%s", op.Query, dump)
				return
			}
		} else {
			idleAdvances = 0
		}
		a := acts[t.Choose(len(acts), "act")]
		switch a.kind {
		case "release":
			switch a.it.Kind {
			case "write":
				info := a.it.Info.(simhttp.WriteInfo)
				dec := simhttp.WriteDecision{Split: -1}
				switch t.Choose(4, "write-dec") {
				case 1, 2:
					if info.Len > 1 {
						dec.Split = t.Choose(info.Len, "split")
						splits++
					}
				case 3:
					if allowDisconnect && !disconnected && t.Bool(1, 4, "fail-write") {
						dec.Fail = true
						disconnected = true
						cancel()
						w.Count("disconnect_in_write")
					}
				}
				w.Release(a.it, dec)
			default:
				w.Release(a.it, nil)
			}
		case "emit":
			s.pending = true
			s.sent++
			n := s.sent
			val := u.Build(s.elem, s.gql, fmt.Sprintf("%s@%d", s.path, n))
			if s.elem.Kind() == reflect.Int {
				val = reflect.ValueOf(n)
			}
			w.Logf("emit", s.path, "%d", n)
			retract := s.retract
			go func() {
				chosen, _, _ := reflect.Select([]reflect.SelectCase{
					{Dir: reflect.SelectSend, Chan: s.ch, Send: val},
					{Dir: reflect.SelectRecv, Chan: reflect.ValueOf(retract)},
				})
				smu.Lock()
				if chosen != 0 {
					s.sent--
					w.Count("emissions_withdrawn")
				}
				s.pending = false
				smu.Unlock()
			}()
		case "end":
			s.closed = true
			s.ch.Close()
			w.Logf("end", s.path, "")
		case "sleep":
			a.d = menu[t.Choose(len(menu), "sleep-d")]
			if a.d <= 0 {
				a.d = time.Microsecond
			}
			slept := core.SleepChunked(a.d, interval, synctest.Wait, func() bool {
				for _, it := range w.Parked() {
					if wi, ok := it.Info.(simhttp.WriteInfo); ok && core.IsTickerRole(wi.Role) {
						return true
					}
					if it.Kind == "lock" && core.IsTickerRole(it.Key) {
						return true
					}
				}
				return false
			})
			w.Logf("sleep", "", "%s", slept)
			w.Count("clock_advances")
		case "disconnect":
			disconnected = true
			wr.Disconnect()
			cancel()
			w.Logf("disconnect", "", "")
			w.Count("disconnect_idle")
		}
	}
	if !finished {
		site, dump := core.StuckSite()
		rc.Fail("stuck", site, "step budget exhausted; op=%q\n%s", op.Query, dump)
		return
	}
	cancel()
	out := wr.Bytes()
	hdr := wr.Header()
	rmu.Lock()
	rec := append([]string(nil), recorded...)
	rmu.Unlock()
	desc := func() string {
		return fmt.Sprintf("transport=%s interval=%s op=%q disconnected=%v recorded=%d\nbytes: %q\nrecorded: %q", map[bool]string{true: "sse", false: "multipart/mixed"}[sse], interval, op.Query, disconnected, len(rec), string(out), rec)
	}
	// C05 only asks that nothing is left running; after a serialisation panic the stream is not
	// a complete response and only the end-of-life checks apply
	framing := rc.Property != "C05" && !marshalPanic
	if marshalPanic {
		w.Count("serialisation_panic_runs")
	}
	followUp := false
	checkFraming := func() bool {
		// (overlapping writes are judged on the first response only, and not after a
		// serialisation panic, which the statement does not cover)
		if ov := wr.Overlaps(); len(ov) > 0 && !followUp {
			rc.Fail("concurrent-write", map[bool]string{true: "sse", false: "multipart"}[sse], "%s\n%s", ov[0], desc())
			return false
		}
		canon := func(s string) string {
			j, err := parsers.ParseJSON([]byte(s))
			if err != nil {
				return "INVALID(" + err.Error() + "):" + s
			}
			return j.Canon()
		}
		if sse {
			if hdr.Get("Content-Type") != "text/event-stream" {
				// errors before the stream starts are plain JSON responses: not a stream
				rc.Res.Nontrivial = false
				rc.Res.Sig = execsim.SigOf("sse-nostream", op.Query)
				return false
			}
			evs, err := parsers.ParseSSE(out, disconnected)
			if err != nil {
				rc.Fail("sse-framing", "malformed-event", "%v\n%s", err, desc())
				return false
			}
			var nexts []string
			completes := 0
			lastKind := ""
			pings := 0
			for _, e := range evs {
				switch e.Kind {
				case "next":
					if completes > 0 {
						rc.Fail("sse-framing", "next-after-complete", "%s", desc())
						return false
					}
					nexts = append(nexts, e.Data)
					lastKind = "next"
				case "complete":
					completes++
					lastKind = "complete"
				default:
					pings++
				}
			}
			w.CountN("sse_pings", pings)
			for i, n := range nexts {
				if strings.HasPrefix(canon(n), "INVALID") {
					rc.Fail("sse-framing", "invalid-json", "event %d: %s\n%s", i, canon(n), desc())
					return false
				}
				if i >= len(rec) || canon(n) != canon(rec[i]) {
					rc.Fail("sse-payloads", "order-or-content", "event %d does not equal payload %d produced by the operation\n%s", i, i, desc())
					return false
				}
			}
			if !disconnected {
				if len(nexts) != len(rec) {
					rc.Fail("sse-payloads", "count", "%d next events for %d payloads\n%s", len(nexts), len(rec), desc())
					return false
				}
				if completes != 1 || lastKind != "complete" {
					rc.Fail("sse-framing", "complete", "%d complete events, last non-comment event is %q\n%s", completes, lastKind, desc())
					return false
				}
			} else if completes > 1 {
				rc.Fail("sse-framing", "complete", "%d complete events\n%s", completes, desc())
				return false
			}
			w.CountN("sse_next_events", len(nexts))
		} else {
			mt, params, err := mime.ParseMediaType(hdr.Get("Content-Type"))
			if err != nil || mt != "multipart/mixed" {
				// gate errors are answered with a plain JSON body
				rc.Res.Nontrivial = false
				rc.Res.Sig = execsim.SigOf("mm-nostream", op.Query)
				return false
			}
			boundary := params["boundary"]
			mr := multipart.NewReader(bytes.NewReader(out), boundary)
			var parts []string
			for {
				p, err := mr.NextPart()
				if err == io.EOF {
					break
				}
				if err != nil {
					if disconnected {
						break
					}
					rc.Fail("multipart-framing", "part", "%v\n%s", err, desc())
					return false
				}
				if ct := p.Header.Get("Content-Type"); ct != "application/json" {
					rc.Fail("multipart-framing", "part-content-type", "part %d has Content-Type %q\n%s", len(parts), ct, desc())
					return false
				}
				b, err := io.ReadAll(p)
				if err != nil {
					if disconnected {
						break
					}
					rc.Fail("multipart-framing", "part-body", "%v\n%s", err, desc())
					return false
				}
				parts = append(parts, string(b))
			}
			var delivered []string
			for i, p := range parts {
				j, err := parsers.ParseJSON([]byte(p))
				if err != nil {
					if disconnected && i == len(parts)-1 {
						break
					}
					rc.Fail("multipart-framing", "invalid-json", "part %d: %v\n%s", i, err, desc())
					return false
				}
				if inc := j.Get("incremental"); i > 0 || inc != nil {
					if inc == nil || inc.K != parsers.Arr {
						rc.Fail("multipart-payloads", "incremental-shape", "part %d is neither the initial payload nor an incremental batch\n%s", i, desc())
						return false
					}
					for _, e := range inc.A {
						delivered = append(delivered, e.Canon())
					}
				} else {
					delivered = append(delivered, j.Canon())
				}
			}
			for i, d := range delivered {
				if i >= len(rec) || d != canon(rec[i]) {
					rc.Fail("multipart-payloads", "order-or-content", "delivered payload %d does not equal payload %d produced by the operation\n%s", i, i, desc())
					return false
				}
			}
			closing := "--" + boundary + "--"
			nClosing := 0
			lines := strings.Split(string(out), "\r\n")
			lastNonEmpty := ""
			for _, l := range lines {
				if l == closing {
					nClosing++
				}
				if l != "" {
					lastNonEmpty = l
				}
			}
			if !disconnected {
				if len(delivered) != len(rec) {
					rc.Fail("multipart-payloads", "count", "%d payloads delivered, %d produced\n%s", len(delivered), len(rec), desc())
					return false
				}
				if nClosing != 1 || lastNonEmpty != closing {
					rc.Fail("multipart-framing", "closing-boundary", "closing delimiter appears %d times, last line %q\n%s", nClosing, lastNonEmpty, desc())
					return false
				}
			} else if nClosing > 1 {
				rc.Fail("multipart-framing", "closing-boundary", "closing delimiter appears %d times\n%s", nClosing, desc())
				return false
			}
			w.CountN("multipart_parts", len(parts))
			w.CountN("multipart_payloads", len(delivered))
		}
		return true
	}
	if framing && !checkFraming() {
		return
	}
	if rc.Property == "C04" && marshalPanic && !disconnected && !denied {
		// "a panic raised while serializing a value fails only that response with a well-formed
		// error body": on a stream that has begun, the error must itself be framed as the
		// transport frames everything else
		if sse && hdr.Get("Content-Type") == "text/event-stream" {
			if _, err := parsers.ParseSSE(out, false); err != nil {
				rc.Fail("serialisation-failure-body", "sse-error-is-not-an-event", "%v\n%s", err, desc())
				return
			}
		}
		if !sse {
			if mt, params, err := mime.ParseMediaType(hdr.Get("Content-Type")); err == nil && mt == "multipart/mixed" {
				closing := "--" + params["boundary"] + "--"
				if !strings.Contains(string(out), closing) {
					rc.Fail("serialisation-failure-body", "multipart-error-outside-any-part", "no closing delimiter; the error is written as bare JSON\n%s", desc())
					return
				}
			}
		}
	}
	// the connection is gone: whatever is still parked in a write fails, resolvers return
	wr.Disconnect()
	for i := 0; i < 3000; i++ {
		synctest.Wait()
		if w.NumParked() == 0 {
			break
		}
		w.NextStep()
		if !w.ReleaseNext(func(it *core.Item) any {
			if it.Kind == "write" {
				return simhttp.WriteDecision{Fail: true}
			}
			return nil
		}) {
			break
		}
	}
	leaks := core.Leaks()
	if len(leaks) > 0 {
		w.Count("goroutines_after_end")
		rc.Fail("goroutine-left-behind", leaks[0].TopSUTFrame(), "after the response ended and the context was cancelled\n%s\n%s", leaks[0].Raw, desc())
		return
	}
	w.CountN("split_writes", splits)
	if disconnected {
		w.Count("disconnected_runs")
	}
	// the server keeps serving: a plain follow-up request over the same transport must be a
	// well-framed stream of its own (nothing of the first response, however it ended, may show)
	if rc.Property != "C05" && (marshalPanic || t.Bool(1, 4, "follow-up")) {
		u.Park = false
		plan.Faults = nil
		badExtension.Store(false)
		nBefore := len(rec)
		body2, _ := json.Marshal(map[string]any{"query": `{ maybe }`})
		ctx2, cancel2 := context.WithCancel(context.Background())
		req2 := httptest.NewRequest("POST", "/query", bytes.NewReader(body2)).WithContext(ctx2)
		req2.Header.Set("Content-Type", "application/json")
		req2.Header.Set("Accept", req.Header.Get("Accept"))
		rec2 := httptest.NewRecorder()
		done2 := make(chan struct{})
		go func() {
			defer close(done2)
			srv.ServeHTTP(rec2, req2)
		}()
		ended := false
		for i := 0; i < 400 && !ended; i++ {
			synctest.Wait()
			select {
			case <-done2:
				ended = true
				continue
			default:
			}
			if w.NumParked() > 0 {
				w.NextStep()
				w.ReleaseNext(func(it *core.Item) any { return nil })
			} else {
				core.Nap(time.Millisecond)
			}
		}
		cancel2()
		if !ended {
			site, dump := core.StuckSite()
			rc.Fail("stuck", site, "follow-up request on the same server did not finish\n%s", dump)
			return
		}
		synctest.Wait()
		rmu.Lock()
		rec = append([]string(nil), recorded[nBefore:]...)
		rmu.Unlock()
		out, hdr, disconnected = rec2.Body.Bytes(), rec2.Header(), false
		op = ops.Op{Query: "{ maybe } (follow-up after " + op.Query + ")"}
		w.Count("follow_up_requests")
		followUp = true
		if !checkFraming() {
			return
		}
	}
	w.Count(map[bool]string{true: "sse_runs", false: "multipart_runs"}[sse])
	rc.Res.Nontrivial = len(rec) >= 1
	rc.Res.Sig = execsim.SigOf(sse, interval, op.Query, nEmit, w.LogHash())
	rc.Res.Sample = map[string]any{"transport": map[bool]string{true: "sse", false: "multipart/mixed"}[sse], "interval": interval.String(), "op": op.Query, "emitted": nEmit, "disconnected": disconnected, "bytes": string(out)}
}
