// Package probereg lists the probe variants generated for this check invocation.
package probereg

import "verifsim/uni"

// Core holds the variants of the `core` probe (filled by the generated reg_gen.go).
var Core []uni.Variant

// Fed holds the variants of the federation probe.
var Fed []uni.FedVariant
