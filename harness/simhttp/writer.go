// Package simhttp provides the simulated HTTP peers: a ResponseWriter whose Write calls park at
// the scheduler (slow client, split writes, disconnects, overlap detection) and a request body
// whose Read calls can be chunked, stalled or failed.
package simhttp

import (
	"bytes"
	"errors"
	"fmt"
	"io"
	"net/http"
	"sync"
	"sync/atomic"

	"verifsim/core"
)

// WriteDecision is what the scheduler passes when it releases a parked Write.
type WriteDecision struct {
	Split int  // >=0: write only the first Split bytes, then park again before the rest
	Fail  bool // the client is gone: this and all later writes fail
}

type WriteInfo struct {
	Len  int
	Seq  int
	Role string
}

// Writer is an http.ResponseWriter + http.Flusher.
type Writer struct {
	W    *core.World
	Name string
	Park bool

	mu       sync.Mutex
	hdr      http.Header
	status   int
	buf      bytes.Buffer
	failed   bool
	seq      int
	inWrite  atomic.Int32
	overlaps []string
	flushes  int
	writes   int
}

func NewWriter(w *core.World, name string, park bool) *Writer {
	return &Writer{W: w, Name: name, Park: park, hdr: http.Header{}}
}

var ErrClientGone = errors.New("simulated client disconnected")

func (w *Writer) Header() http.Header { return w.hdr }

func (w *Writer) WriteHeader(code int) {
	w.mu.Lock()
	if w.status == 0 {
		w.status = code
	}
	w.mu.Unlock()
}

func (w *Writer) Write(p []byte) (int, error) {
	if n := w.inWrite.Add(1); n > 1 {
		w.mu.Lock()
		w.overlaps = append(w.overlaps, fmt.Sprintf("a Write of %q entered while another Write was in progress", clip(p)))
		w.mu.Unlock()
	}
	defer w.inWrite.Add(-1)
	w.mu.Lock()
	w.seq++
	seq := w.seq
	w.writes++
	if w.status == 0 {
		w.status = 200
	}
	failed := w.failed
	w.mu.Unlock()
	if failed {
		return 0, ErrClientGone
	}
	split := -1
	if w.Park {
		switch d := w.W.Park("write", fmt.Sprintf("%s#%03d", w.Name, seq), WriteInfo{Len: len(p), Seq: seq, Role: core.GoroutineRole()}).(type) {
		case WriteDecision:
			if d.Fail {
				w.mu.Lock()
				w.failed = true
				w.mu.Unlock()
				return 0, ErrClientGone
			}
			split = d.Split
		case core.Kill:
			return 0, ErrClientGone
		}
	}
	if split >= 0 && split < len(p) {
		w.mu.Lock()
		w.buf.Write(p[:split])
		w.mu.Unlock()
		w.W.Logf("write-part", w.Name, "%d of %d bytes", split, len(p))
		if _, killed := w.W.Park("write-rest", fmt.Sprintf("%s#%03d", w.Name, seq), WriteInfo{Role: core.GoroutineRole()}).(core.Kill); killed {
			return split, ErrClientGone
		}
		w.mu.Lock()
		w.buf.Write(p[split:])
		w.mu.Unlock()
		return len(p), nil
	}
	w.mu.Lock()
	w.buf.Write(p)
	w.mu.Unlock()
	return len(p), nil
}

func clip(p []byte) string {
	if len(p) > 40 {
		return string(p[:40]) + "…"
	}
	return string(p)
}

func (w *Writer) Flush() {
	w.mu.Lock()
	w.flushes++
	w.mu.Unlock()
}

// Disconnect makes all further writes fail.
func (w *Writer) Disconnect() {
	w.mu.Lock()
	w.failed = true
	w.mu.Unlock()
}

func (w *Writer) Bytes() []byte {
	w.mu.Lock()
	defer w.mu.Unlock()
	return append([]byte(nil), w.buf.Bytes()...)
}

func (w *Writer) Status() int {
	w.mu.Lock()
	defer w.mu.Unlock()
	return w.status
}

func (w *Writer) Overlaps() []string {
	w.mu.Lock()
	defer w.mu.Unlock()
	return append([]string(nil), w.overlaps...)
}

func (w *Writer) Counts() (writes, flushes int) {
	w.mu.Lock()
	defer w.mu.Unlock()
	return w.writes, w.flushes
}

// Body is a request body with scripted reads.
type Body struct {
	Data   []byte
	Chunks []int // sizes of successive reads (then the rest in one read)
	FailAt int   // >=0: after this many bytes Read returns Err
	Err    error
	pos    int
	ci     int
	Closed bool
	// OnOffset runs a callback the first time the read position reaches an offset.
	OnOffset map[int]func()
}

func (b *Body) Read(p []byte) (int, error) {
	if b.FailAt >= 0 && b.pos >= b.FailAt {
		if b.Err != nil {
			return 0, b.Err
		}
		return 0, io.ErrUnexpectedEOF
	}
	if b.pos >= len(b.Data) {
		return 0, io.EOF
	}
	n := len(p)
	if b.ci < len(b.Chunks) && b.Chunks[b.ci] > 0 && b.Chunks[b.ci] < n {
		n = b.Chunks[b.ci]
	}
	b.ci++
	if n > len(b.Data)-b.pos {
		n = len(b.Data) - b.pos
	}
	if b.FailAt >= 0 && b.pos+n > b.FailAt {
		n = b.FailAt - b.pos
	}
	copy(p, b.Data[b.pos:b.pos+n])
	for off, f := range b.OnOffset {
		if b.pos <= off && off < b.pos+n {
			f()
			delete(b.OnOffset, off)
		}
	}
	b.pos += n
	return n, nil
}

func (b *Body) Close() error { b.Closed = true; return nil }
