// Package core is the deterministic-simulation engine: the decision tape, the scheduler world
// (parked items, event log), the bubble runner with leak scan, and the worker protocol.
package core

import (
	"fmt"
	"hash/fnv"
)

// Draw is one recorded decision.
type Draw struct {
	V uint32 `json:"v"`
	N uint32 `json:"n"`
	L string `json:"l,omitempty"`
}

// Tape is the only source of choice in a run. In search mode it is backed by a PRNG seeded with
// the run seed and records every draw; in replay mode it is an explicit list and returns 0 when
// exhausted. Every chooser in the harness is written so that 0 is the simplest choice.
type Tape struct {
	state  uint64
	replay bool
	fixed  []uint32
	pos    int
	Rec    []Draw
	mute   int
}

func SplitMix(x uint64) uint64 {
	x += 0x9e3779b97f4a7c15
	z := x
	z = (z ^ (z >> 30)) * 0xbf58476d1ce4e5b9
	z = (z ^ (z >> 27)) * 0x94d049bb133111eb
	return z ^ (z >> 31)
}

// RunSeed derives the seed of run idx from the batch seed.
func RunSeed(seed uint64, idx int) uint64 {
	return SplitMix(SplitMix(seed) ^ uint64(idx)*0x2545f4914f6cdd1d)
}

func NewTape(seed uint64) *Tape { return &Tape{state: seed} }

func ReplayTape(vals []uint32) *Tape {
	return &Tape{replay: true, fixed: append([]uint32(nil), vals...)}
}

func (t *Tape) next() uint32 {
	if t.replay {
		if t.pos < len(t.fixed) {
			v := t.fixed[t.pos]
			t.pos++
			return v
		}
		t.pos++
		return 0
	}
	t.state += 0x9e3779b97f4a7c15
	z := t.state
	z = (z ^ (z >> 30)) * 0xbf58476d1ce4e5b9
	z = (z ^ (z >> 27)) * 0x94d049bb133111eb
	z ^= z >> 31
	return uint32(z >> 32)
}

// Choose returns a value in [0,n). n<=1 draws nothing.
func (t *Tape) Choose(n int, label string) int {
	if n <= 1 {
		return 0
	}
	v := t.next() % uint32(n)
	t.Rec = append(t.Rec, Draw{V: v, N: uint32(n), L: label})
	return int(v)
}

// Bool is true with probability num/den; 0 on the tape means false.
func (t *Tape) Bool(num, den int, label string) bool {
	if num <= 0 {
		return false
	}
	v := t.Choose(den, label)
	return v >= den-num
}

// Values returns the recorded tape as a plain list usable for replay.
func (t *Tape) Values() []uint32 {
	out := make([]uint32, len(t.Rec))
	for i, d := range t.Rec {
		out[i] = d.V
	}
	return out
}

// Hash64 is a stable string hash used by plans (pure function of seed and key).
func Hash64(seed uint64, key string) uint64 {
	h := fnv.New64a()
	fmt.Fprintf(h, "%d|%s", seed, key)
	return SplitMix(h.Sum64())
}
