package core

import (
	"bytes"
	"encoding/json"
	"fmt"
	"os"
	"regexp"
	"runtime"
	"sort"
	"strconv"
	"strings"
	"sync"
	"testing"
	"testing/synctest"
	"time"
)

// RunCtx is what a scenario body receives for one run (inside the bubble).
type RunCtx struct {
	T        *testing.T
	Tape     *Tape
	W        *World
	Property string
	Tier     string
	Scenario string
	Res      *RunResult
}

// RunResult is reported per run.
type RunResult struct {
	Type       string         `json:"t"`
	Idx        int            `json:"idx"`
	Seed       uint64         `json:"seed"`
	OK         bool           `json:"ok"`
	Violation  *Violation     `json:"violation,omitempty"`
	Tape       []uint32       `json:"tape,omitempty"`
	Sig        string         `json:"sig,omitempty"`
	LogHash    string         `json:"loghash,omitempty"`
	Nontrivial bool           `json:"nontrivial,omitempty"`
	SimNS      int64          `json:"sim_ns,omitempty"`
	Steps      int            `json:"steps,omitempty"`
	Trace      []string       `json:"trace,omitempty"`
	Sample     any            `json:"sample,omitempty"`
	Counters   map[string]int `json:"counters,omitempty"`
	Known      []*Violation   `json:"known,omitempty"`
	Proc       int            `json:"proc"`
}

// ProcChoice is a choice made once per worker PROCESS (0 <= result < n), from the SIM_PROC
// number the orchestrator gives each worker. It is for settings that change process-global state
// of the system under test (gqlgen's "disable suggestions" swaps a rule in gqlparser's global
// rule list): all runs of one process agree on them, and a replay in a fresh process is given the
// same number.
func ProcChoice(n int) int {
	v, _ := strconv.Atoi(os.Getenv("SIM_PROC"))
	if v < 0 {
		v = -v
	}
	return v % n
}

// Fail records the first violation of a run.
func (rc *RunCtx) Fail(invariant, site, format string, args ...any) {
	if rc.Res.Violation != nil {
		return
	}
	rc.Res.Violation = &Violation{Property: rc.Property, Invariant: invariant, Site: site, Detail: fmt.Sprintf(format, args...)}
}

func (rc *RunCtx) Failed() bool { return rc.Res.Violation != nil }

var bubbleRe = regexp.MustCompile(`synctest bubble (\d+)`)

// Goroutine is one entry of a parsed goroutine dump.
type Goroutine struct {
	Header    string
	Frames    []string // function names, top first
	CreatedBy string
	Raw       string
}

var (
	dumpMu  sync.Mutex
	dumpBuf []byte
)

// BusyTickerRoles returns the roles of gqlgen's ticker goroutines that are not waiting in their
// own select statement: parked by the scheduler, or blocked below it where the scheduler cannot
// see them (a keep-alive write waiting for gorilla's write mutex while the read loop answers a
// close frame). While one is away from its select the clock must not pass its next tick: the
// tick would queue in the ticker's channel and later tie with the goroutine's stop signal.
func BusyTickerRoles() []string {
	var out []string
	for _, g := range DumpBubble() {
		role := ""
		for _, f := range g.Frames {
			if m := roleRe.FindStringSubmatch(f + "("); m != nil {
				role = m[1] + m[2]
			}
		}
		if !IsTickerRole(role) {
			continue
		}
		for _, f := range g.Frames {
			if strings.HasPrefix(f, "runtime.") || strings.HasPrefix(f, "internal/") || strings.HasPrefix(f, "time.") {
				continue
			}
			if m := roleRe.FindStringSubmatch(f + "("); m == nil || m[1]+m[2] != role {
				out = append(out, role)
			}
			break
		}
	}
	sort.Strings(out)
	return out
}

// DumpBubble returns the goroutines of the calling goroutine's bubble other than the caller.
func DumpBubble() []Goroutine {
	dumpMu.Lock()
	if dumpBuf == nil {
		dumpBuf = make([]byte, 1<<20)
	}
	var text string
	for {
		n := runtime.Stack(dumpBuf, true)
		if n < len(dumpBuf) {
			text = string(dumpBuf[:n])
			break
		}
		dumpBuf = make([]byte, 2*len(dumpBuf))
	}
	dumpMu.Unlock()
	blocks := strings.Split(strings.TrimSpace(text), "\n\n")
	if len(blocks) == 0 {
		return nil
	}
	m := bubbleRe.FindStringSubmatch(strings.SplitN(blocks[0], "\n", 2)[0])
	if m == nil {
		return nil
	}
	tag := "synctest bubble " + m[1] + "]"
	var out []Goroutine
	for _, b := range blocks[1:] {
		lines := strings.Split(b, "\n")
		if !strings.Contains(lines[0], tag) && !strings.Contains(lines[0], "synctest bubble "+m[1]+",") {
			continue
		}
		g := Goroutine{Header: lines[0], Raw: b}
		for i := 1; i < len(lines); i++ {
			l := lines[i]
			if strings.HasPrefix(l, "\t") {
				continue
			}
			if strings.HasPrefix(l, "created by ") {
				c := strings.TrimPrefix(l, "created by ")
				if j := strings.Index(c, " in goroutine"); j >= 0 {
					c = c[:j]
				}
				g.CreatedBy = c
				continue
			}
			if j := strings.LastIndex(l, "("); j > 0 {
				l = l[:j]
			}
			g.Frames = append(g.Frames, l)
		}
		out = append(out, g)
	}
	return out
}

var variantRe = regexp.MustCompile(`verifsim/probe/[A-Za-z0-9_]+`)
var mangledRe = regexp.MustCompile(`((?:un)?marshal[A-Z][A-Za-z0-9_]*?)2[^.]*`)

// NormSite maps a function name to a variant-independent site label.
func NormSite(fn string) string {
	fn = variantRe.ReplaceAllString(fn, "probe")
	fn = mangledRe.ReplaceAllString(fn, "$1")
	fn = strings.ReplaceAll(fn, "github.com/99designs/gqlgen/", "gqlgen/")
	return fn
}

func isSUT(fn string) bool {
	return strings.HasPrefix(fn, "github.com/99designs/gqlgen/") || strings.HasPrefix(fn, "verifsim/probe/") ||
		strings.HasPrefix(fn, "github.com/gorilla/websocket")
}

func isHarness(fn string) bool {
	return strings.HasPrefix(fn, "verifsim/") && !strings.HasPrefix(fn, "verifsim/probe/")
}

// TopSUTFrame returns the top-most frame that belongs to gqlgen or generated code.
func (g Goroutine) TopSUTFrame() string {
	for _, f := range g.Frames {
		if isSUT(f) {
			return NormSite(f)
		}
	}
	if g.CreatedBy != "" {
		return "created-by:" + NormSite(g.CreatedBy)
	}
	return "unknown"
}

// Leaks returns goroutines of this bubble that were not created by the harness. The caller must
// have reached the scenario's end-of-life point; synctest.Wait is called first.
func Leaks() []Goroutine {
	synctest.Wait()
	var out []Goroutine
	for _, g := range DumpBubble() {
		if isHarness(g.CreatedBy) || g.CreatedBy == "" || strings.HasPrefix(g.CreatedBy, "testing.") || strings.HasPrefix(g.CreatedBy, "testing/synctest") {
			continue
		}
		out = append(out, g)
	}
	sort.Slice(out, func(i, j int) bool { return out[i].TopSUTFrame() < out[j].TopSUTFrame() })
	return out
}

// StuckSite describes where the system is blocked when nothing is enabled: the top SUT frames of
// all bubble goroutines (harness-created ones included, since the harness calls into gqlgen).
func StuckSite() (site string, dump string) {
	var sites []string
	var sb strings.Builder
	for _, g := range DumpBubble() {
		s := g.TopSUTFrame()
		if s == "unknown" || strings.HasPrefix(s, "created-by:") {
			continue
		}
		sites = append(sites, s)
		sb.WriteString(g.Raw)
		sb.WriteString("\n\n")
	}
	// goroutines that merely wait for others (FieldSet.Dispatch joins its children) are the
	// least informative: sort them last
	sort.Slice(sites, func(i, j int) bool {
		wi, wj := strings.Contains(sites[i], "FieldSet).Dispatch"), strings.Contains(sites[j], "FieldSet).Dispatch")
		if wi != wj {
			return wj
		}
		return sites[i] < sites[j]
	})
	if len(sites) == 0 {
		return "none", ""
	}
	return sites[0], sb.String()
}

// Plain makes RunOne call the body directly instead of inside a synctest bubble. It is for
// scenarios whose system under test is a child process (the code generator), where there is no
// goroutine, clock or I/O of gqlgen's inside this process to control.
var Plain bool

// RunOne executes body in a fresh bubble with the given tape.
func RunOne(t *testing.T, tape *Tape, scenario, property, tier string, body func(rc *RunCtx)) *RunResult {
	res := &RunResult{Type: "end"}
	var w *World
	if Plain {
		w = NewWorld(tape)
		rc := &RunCtx{T: t, Tape: tape, W: w, Property: property, Tier: tier, Scenario: scenario, Res: res}
		func() {
			defer func() {
				if r := recover(); r != nil && res.Violation == nil {
					res.Violation = &Violation{Property: property, Invariant: "harness-panic", Site: "harness", Detail: fmt.Sprint(r) + "\n" + string(debugStack())}
				}
			}()
			body(rc)
		}()
		res.OK = res.Violation == nil
		res.Tape = tape.Values()
		res.LogHash = w.LogHash()
		res.Counters = w.Counters
		if !res.OK {
			res.Trace = w.Trace(400)
		}
		return res
	}
	func() {
		defer func() {
			if r := recover(); r != nil {
				msg := fmt.Sprint(r)
				if res.Violation == nil {
					if strings.Contains(msg, "deadlock") {
						res.Violation = &Violation{Property: property, Invariant: "leak-at-bubble-end", Site: "unscanned", Detail: msg}
					} else {
						res.Violation = &Violation{Property: property, Invariant: "harness-panic", Site: "harness", Detail: msg + "\n" + string(debugStack())}
					}
				}
			}
		}()
		synctest.Test(t, func(t *testing.T) {
			w = NewWorld(tape)
			rc := &RunCtx{T: t, Tape: tape, W: w, Property: property, Tier: tier, Scenario: scenario, Res: res}
			defer func() {
				// Unpark whatever is left so that the bubble can end; goroutines that are
				// blocked elsewhere make synctest panic, which is recovered above.
				res.SimNS = int64(time.Since(w.start))
				for i := 0; i < 200; i++ {
					synctest.Wait()
					p := w.Parked()
					if len(p) == 0 {
						break
					}
					for _, it := range p {
						w.Release(it, Kill{})
					}
				}
			}()
			body(rc)
		})
	}()
	res.OK = res.Violation == nil
	res.Tape = tape.Values()
	if w != nil {
		res.LogHash = w.LogHash()
		res.Steps = w.Step
		res.Counters = w.Counters
		if !res.OK || res.Trace == nil && os.Getenv("SIM_TRACE") != "" {
			res.Trace = w.Trace(400)
		}
	}
	return res
}

// Kill is the decision delivered to items still parked when a run ends.
type Kill struct{}

func debugStack() []byte {
	buf := make([]byte, 16<<10)
	return buf[:runtime.Stack(buf, false)]
}

// ReplayFile is the on-disk replay format.
type ReplayFile struct {
	Property    string            `json:"property"`
	Scenario    string            `json:"scenario"`
	Tier        string            `json:"tier"`
	Seed        uint64            `json:"seed"`
	RunIdx      int               `json:"run_idx"`
	Env         map[string]string `json:"env,omitempty"`
	Tape        []uint32          `json:"tape"`
	Minimised   []uint32          `json:"minimised_tape,omitempty"`
	Fingerprint string            `json:"fingerprint"`
	Violation   *Violation        `json:"expected_violation"`
	Trace       []string          `json:"trace,omitempty"`
	Proc        int               `json:"proc"`
}

type out struct{ f *os.File }

func (o *out) emit(v any) {
	b, _ := json.Marshal(v)
	b = append(b, '\n')
	o.f.Write(b)
}

// Main is the entry point of every scenario test binary. Environment:
//
//	SIM_MODE=search  SIM_SEED SIM_FROM SIM_TO        run indices [from,to)
//	SIM_MODE=replay  SIM_REPLAY=<file>               run the (minimised) tape once
//	SIM_MODE=minimise SIM_REPLAY=<file>              delta-debug the tape in-process
//	SIM_OUT=<file> (JSON lines)  SIM_PROPERTY  SIM_TIER
//
// memoryWatchdog ends the worker when its heap runs away (the sandbox has no memory limit: code
// under test that loops while allocating would otherwise take the whole machine down). The report
// has the shape of a crash, so that the orchestrator attributes it to the open run.
func memoryWatchdog() {
	var m runtime.MemStats
	for {
		time.Sleep(150 * time.Millisecond)
		runtime.ReadMemStats(&m)
		if m.HeapAlloc > 3<<30 {
			buf := make([]byte, 1<<20)
			buf = buf[:runtime.Stack(buf, true)]
			// the goroutine that is running (allocating) first
			stack := string(buf)
			if i := strings.Index(stack, "[running"); i >= 0 {
				if j := strings.LastIndex(stack[:i], "goroutine "); j >= 0 {
					stack = stack[j:]
				}
			}
			fmt.Fprintf(os.Stderr, "\npanic: memory runaway: heap grew to %d MB within one run\n\n%s\n", m.HeapAlloc>>20, stack)
			os.Exit(2)
		}
	}
}

func Main(t *testing.T, scenario string, body func(rc *RunCtx)) {
	mode := os.Getenv("SIM_MODE")
	if mode == "" {
		t.Skip("SIM_MODE not set; this binary is driven by /verif/cmd/check")
	}
	property := os.Getenv("SIM_PROPERTY")
	tier := os.Getenv("SIM_TIER")
	go memoryWatchdog()
	o := &out{f: os.Stdout}
	if p := os.Getenv("SIM_OUT"); p != "" {
		f, err := os.OpenFile(p, os.O_CREATE|os.O_WRONLY|os.O_APPEND, 0o644)
		if err != nil {
			t.Fatal(err)
		}
		defer f.Close()
		o.f = f
	}
	switch mode {
	case "search":
		seed, _ := strconv.ParseUint(os.Getenv("SIM_SEED"), 10, 64)
		from, _ := strconv.Atoi(os.Getenv("SIM_FROM"))
		to, _ := strconv.Atoi(os.Getenv("SIM_TO"))
		deadline := time.Time{}
		if d, err := time.ParseDuration(os.Getenv("SIM_BUDGET")); err == nil && d > 0 {
			deadline = time.Now().Add(d)
		}
		agg := map[string]int{}
		samples := 0
		for idx := from; idx < to; idx++ {
			if !deadline.IsZero() && time.Now().After(deadline) {
				break
			}
			o.emit(map[string]any{"t": "begin", "idx": idx})
			rs := RunSeed(seed, idx)
			res := RunOne(t, NewTape(rs), scenario, property, tier, body)
			res.Idx, res.Seed = idx, rs
			res.Proc, _ = strconv.Atoi(os.Getenv("SIM_PROC"))
			for k, v := range res.Counters {
				agg[k] += v
			}
			res.Counters = nil
			if res.OK {
				res.Tape = nil
				if samples >= 2 {
					res.Sample = nil
					res.Trace = nil
				} else if res.Sample != nil {
					samples++
				}
			}
			o.emit(res)
		}
		o.emit(map[string]any{"t": "summary", "counters": agg})
	case "replay", "minimise":
		b, err := os.ReadFile(os.Getenv("SIM_REPLAY"))
		if err != nil {
			t.Fatal(err)
		}
		var rf ReplayFile
		if err := json.Unmarshal(b, &rf); err != nil {
			t.Fatal(err)
		}
		os.Setenv("SIM_PROC", strconv.Itoa(rf.Proc))
		if property == "" {
			property = rf.Property
		}
		if tier == "" {
			tier = rf.Tier
		}
		tapeVals := rf.Minimised
		if tapeVals == nil || os.Getenv("SIM_FULLTAPE") != "" {
			tapeVals = rf.Tape
		}
		if mode == "replay" {
			o.emit(map[string]any{"t": "begin", "idx": rf.RunIdx})
			os.Setenv("SIM_TRACE", "1")
			res := RunOne(t, ReplayTape(tapeVals), scenario, property, tier, body)
			res.Idx, res.Seed = rf.RunIdx, rf.Seed
			o.emit(res)
			return
		}
		want := rf.Fingerprint
		test := func(c []uint32) bool {
			r := RunOne(t, ReplayTape(c), scenario, property, tier, body)
			return r.Violation != nil && r.Violation.Fingerprint() == want
		}
		budget := 2000
		start := time.Now()
		min := Minimise(rf.Tape, func(c []uint32) bool {
			if budget <= 0 || time.Since(start) > 120*time.Second {
				return false
			}
			budget--
			return test(c)
		})
		res := RunOne(t, ReplayTape(min), scenario, property, tier, body)
		res.Type = "minimised"
		res.Tape = min
		res.Trace = nil
		if res.Violation == nil || res.Violation.Fingerprint() != want {
			// minimisation must never lose the violation; fall back to the full tape
			res = RunOne(t, ReplayTape(rf.Tape), scenario, property, tier, body)
			res.Type = "minimised"
			res.Tape = rf.Tape
		}
		o.emit(res)
	default:
		t.Fatalf("unknown SIM_MODE %q", mode)
	}
}

// Minimise is delta debugging on a tape: drop chunks, then zero entries, then halve values.
func Minimise(tape []uint32, fails func([]uint32) bool) []uint32 {
	cur := append([]uint32(nil), tape...)
	// trailing zeros are implicit
	trim := func(a []uint32) []uint32 {
		for len(a) > 0 && a[len(a)-1] == 0 {
			a = a[:len(a)-1]
		}
		return a
	}
	cur = trim(cur)
	// 1. truncate the tail (binary search on a prefix that still fails)
	for n := len(cur) / 2; n >= 1; n /= 2 {
		for len(cur) > n {
			c := trim(append([]uint32(nil), cur[:len(cur)-n]...))
			if fails(c) {
				cur = c
			} else {
				break
			}
		}
	}
	// 2. zero chunks, then single entries
	for size := len(cur) / 2; size >= 1; size /= 2 {
		for i := 0; i+size <= len(cur); i += size {
			allZero := true
			for _, v := range cur[i : i+size] {
				if v != 0 {
					allZero = false
				}
			}
			if allZero {
				continue
			}
			c := append([]uint32(nil), cur...)
			for j := i; j < i+size; j++ {
				c[j] = 0
			}
			if fails(c) {
				cur = c
			}
		}
	}
	// 3. delete single entries (shifts later draws; often still valid)
	for i := len(cur) - 1; i >= 0 && i < len(cur); i-- {
		c := append(append([]uint32(nil), cur[:i]...), cur[i+1:]...)
		if fails(c) {
			cur = c
		}
	}
	// 4. reduce values
	for i := range cur {
		for cur[i] > 0 {
			c := append([]uint32(nil), cur...)
			c[i] = cur[i] / 2
			if fails(c) {
				cur = c
			} else {
				c[i] = cur[i] - 1
				if fails(c) {
					cur = c
				} else {
					break
				}
			}
		}
	}
	return trim(cur)
}

var roleRe = regexp.MustCompile(`transport\.\(\*(?:wsConnection|sseConnection|multipartResponseAggregator)\)\.([A-Za-z]+)|transport\.(newMultipartResponseAggregator)`)

// GoroutineRole names the calling goroutine by the outermost transport-connection method on its
// stack (run, init, subscribe, closeOnCancel, keepAlive, ping, keepAlivePongOnly, ...), or
// "other". Used to give parked items of anonymous goroutines a canonical identity.
func GoroutineRole() string {
	r, _ := GoroutineRoleID()
	return r
}

var gidRe = regexp.MustCompile(`^goroutine (\d+) `)

// GoroutineRoleID also returns the runtime id of the calling goroutine.
func GoroutineRoleID() (string, string) {
	buf := make([]byte, 16384)
	buf = buf[:runtime.Stack(buf, false)]
	gid := ""
	if g := gidRe.FindSubmatch(buf); g != nil {
		gid = string(g[1])
	}
	// the trailing "created by ...run in goroutine N" line names the parent, not this goroutine
	if i := bytes.Index(buf, []byte("\ncreated by ")); i >= 0 {
		buf = buf[:i]
	}
	m := roleRe.FindAllSubmatch(buf, -1)
	if len(m) == 0 {
		return "other", gid
	}
	last := m[len(m)-1]
	if len(last[1]) > 0 {
		return string(last[1]), gid
	}
	return string(last[2]), gid
}

// ReleaseNext releases the first enabled parked item in canonical order (lock requests only
// while their mutex is free) with the decision produced by dec, and reports whether it did.
func (w *World) ReleaseNext(dec func(it *Item) any) bool {
	for _, it := range w.Parked() {
		if it.Kind == "lock" {
			if free, ok := it.Info.(func() bool); ok && !free() {
				continue
			}
		}
		w.Release(it, dec(it))
		return true
	}
	return false
}

// IsTickerRole reports whether a role is one of gqlgen's ticker goroutines.
func IsTickerRole(r string) bool {
	return r == "keepAlive" || r == "keepAlivePongOnly" || r == "ping" || r == "newMultipartResponseAggregator"
}
