package core

import (
	"crypto/sha256"
	"encoding/hex"
	"fmt"
	"os"
	"sort"
	"sync"
	"sync/atomic"
	"time"
)

// Event is one line of the canonical event log.
type Event struct {
	Step   int    `json:"step"`
	T      int64  `json:"t_ns"`
	Kind   string `json:"kind"`
	Key    string `json:"key"`
	Detail string `json:"detail,omitempty"`
}

// Item is a goroutine of the system under test parked at a seam the harness owns.
type Item struct {
	Kind string
	Key  string
	Info any
	ch   chan any
}

func (it *Item) ID() string { return it.Kind + "|" + it.Key }

// World holds the parked items and the event log of one run. It must be created inside the
// bubble so that its channels block durably.
type World struct {
	mu     sync.Mutex
	parked map[string]*Item
	seq    map[string]int
	Log    []Event
	Step   int
	start  time.Time
	tickAt map[string]time.Duration
	Tape   *Tape
	// counters for evidence: name -> count
	Counters map[string]int
}

func NewWorld(t *Tape) *World {
	return &World{parked: map[string]*Item{}, seq: map[string]int{}, start: time.Now(), Tape: t, Counters: map[string]int{}}
}

func (w *World) Count(name string) {
	w.mu.Lock()
	w.Counters[name]++
	w.mu.Unlock()
}

func (w *World) CountN(name string, n int) {
	w.mu.Lock()
	w.Counters[name] += n
	w.mu.Unlock()
}

// Logf appends an event. Safe from any goroutine.
func (w *World) Logf(kind, key, format string, args ...any) {
	d := format
	if len(args) > 0 {
		d = fmt.Sprintf(format, args...)
	}
	w.mu.Lock()
	w.Log = append(w.Log, Event{Step: w.Step, T: int64(time.Since(w.start)), Kind: kind, Key: key, Detail: d})
	w.mu.Unlock()
}

// Park registers the calling goroutine as parked at (kind,key) and blocks (durably) until the
// scheduler releases it; the value passed to Release is returned.
func (w *World) Park(kind, key string, info any) any {
	it := &Item{Kind: kind, Key: key, Info: info, ch: make(chan any)}
	w.mu.Lock()
	if kind == "lock" && IsTickerRole(key) {
		// a ticker goroutine asks for the connection lock first thing after a tick: the first
		// such request is at a tick instant, and all later ticks are whole intervals after it
		if _, seen := w.tickAt[key]; !seen {
			if w.tickAt == nil {
				w.tickAt = map[string]time.Duration{}
			}
			w.tickAt[key] = time.Since(w.start)
		}
	}
	id := it.ID()
	if _, dup := w.parked[id]; dup {
		w.seq[id]++
		it.Key = fmt.Sprintf("%s#%d", key, w.seq[id])
		id = it.ID()
	}
	w.parked[id] = it
	if debugPark {
		fmt.Fprintf(os.Stderr, "PARK step=%d t=%dns %s\n", w.Step, int64(time.Since(w.start)), id)
	}
	w.mu.Unlock()
	return <-it.ch
}

// Parked returns the parked items in canonical order.
func (w *World) Parked() []*Item {
	w.mu.Lock()
	out := make([]*Item, 0, len(w.parked))
	for _, it := range w.parked {
		out = append(out, it)
	}
	w.mu.Unlock()
	sort.Slice(out, func(i, j int) bool { return out[i].ID() < out[j].ID() })
	return out
}

func (w *World) NumParked() int {
	w.mu.Lock()
	defer w.mu.Unlock()
	return len(w.parked)
}

// Release lets a parked goroutine proceed with decision v.
func (w *World) Release(it *Item, v any) {
	w.mu.Lock()
	delete(w.parked, it.ID())
	w.Log = append(w.Log, Event{Step: w.Step, T: int64(time.Since(w.start)), Kind: "release", Key: it.ID()})
	w.mu.Unlock()
	it.ch <- v
}

// UntilNextTick returns how far the clock may advance before the ticker of the given goroutine
// role fires again (0 if no tick of that role was seen yet), given the ticker interval.
func (w *World) UntilNextTick(role string, interval time.Duration) time.Duration {
	w.mu.Lock()
	t1, ok := w.tickAt[role]
	w.mu.Unlock()
	if !ok || interval <= 0 {
		return 0
	}
	now := time.Since(w.start)
	next := t1 + ((now-t1)/interval+1)*interval
	return next - now
}

// NextStep advances the step counter (called by the scheduler at each quiescent point).
func (w *World) NextStep() {
	w.mu.Lock()
	w.Step++
	w.mu.Unlock()
}

// LogHash is the SHA-256 of the log with events inside one step sorted canonically; this is
// what the determinism self-test compares.
func (w *World) LogHash() string {
	w.mu.Lock()
	ev := append([]Event(nil), w.Log...)
	w.mu.Unlock()
	sort.SliceStable(ev, func(i, j int) bool {
		a, b := ev[i], ev[j]
		if a.Step != b.Step {
			return a.Step < b.Step
		}
		if a.Kind != b.Kind {
			return a.Kind < b.Kind
		}
		if a.Key != b.Key {
			return a.Key < b.Key
		}
		return a.Detail < b.Detail
	})
	h := sha256.New()
	for _, e := range ev {
		fmt.Fprintf(h, "%d|%d|%s|%s|%s\n", e.Step, e.T, e.Kind, e.Key, e.Detail)
	}
	return hex.EncodeToString(h.Sum(nil))[:16]
}

// Trace renders the log for humans (bounded).
func (w *World) Trace(max int) []string {
	w.mu.Lock()
	defer w.mu.Unlock()
	out := []string{}
	for i, e := range w.Log {
		if i >= max {
			out = append(out, fmt.Sprintf("... %d more events", len(w.Log)-max))
			break
		}
		s := fmt.Sprintf("#%d t=%s %s %s", e.Step, time.Duration(e.T), e.Kind, e.Key)
		if e.Detail != "" {
			s += " " + e.Detail
		}
		out = append(out, s)
	}
	return out
}

var debugPark = os.Getenv("SIM_DEBUG_PARK") != ""

// Violation is an oracle failure. Fingerprint = (Property, Invariant, Site).
type Violation struct {
	Property  string `json:"property"`
	Invariant string `json:"invariant"`
	Site      string `json:"site"`
	Detail    string `json:"detail"`
}

func (v *Violation) Fingerprint() string {
	return v.Property + "/" + v.Invariant + "/" + v.Site
}

func (v *Violation) Error() string { return v.Fingerprint() + ": " + v.Detail }

// SleepChunked advances the fake clock by d in chunks no longer than tick (the smallest ticker
// interval of the system under test) and stops early as soon as busy() reports that a ticker
// goroutine is parked: at most one tick fires per call. wait must be synctest.Wait.
//
// The harness must never wake at the very instant at which a timer of the system under test
// fires: the two runtime timers may sit on different Ps, synctest.Wait can return between them,
// and whether the system's goroutine ran before or after the next harness step would then depend
// on the Go scheduler (seen as a self-test divergence between GOMAXPROCS 1 and 4: a keep-alive
// tick due exactly at the end of a 10 s advance). Every timer of the system is armed at a harness
// instant or at another timer's instant with a duration that is a whole number of microseconds,
// and every sleep of the harness (Nap) is one nanosecond short of a whole number of
// microseconds: after n sleeps (n < 1000 in any run) the harness is n ns short of every instant a
// system timer can have.
func SleepChunked(d, tick time.Duration, wait func(), busy func() bool) time.Duration {
	var slept time.Duration
	for d > 0 {
		c := d
		if tick > 0 && c > tick {
			c = tick
		}
		Nap(c)
		slept += c
		d -= c
		wait()
		if busy() {
			break
		}
	}
	return slept
}

// Nap is the only way a scenario advances the fake clock: d (a whole number of microseconds)
// minus one nanosecond, see SleepChunked.
func Nap(d time.Duration) {
	if d > time.Nanosecond {
		d -= time.Nanosecond
	}
	time.Sleep(d)
}

// current is the world lock-grant hooks park in. Hooks installed into the system under test are
// process-global and installed once (writing them per run would race with goroutines of a run
// that is still winding down); they find the world of the running bubble through this pointer.
var current atomic.Pointer[World]

func SetCurrent(w *World) { current.Store(w) }

// ParkLock is the body of the transport mutex hook: a lock request by the named goroutine role.
func ParkLock(role string, free func() bool) {
	if w := current.Load(); w != nil {
		w.Park("lock", role, free)
	}
}
