package fedsim_test

import (
	"testing"

	"verifsim/core"
	"verifsim/fedsim"
)

func TestSim(t *testing.T) { core.Main(t, "fedsim", fedsim.Run) }
