package apqsim_test

import (
	"testing"

	"verifsim/apqsim"
	"verifsim/core"
)

func TestSim(t *testing.T) { core.Main(t, "apqsim", apqsim.Run) }
