package gatesim_test

import (
	"testing"

	"verifsim/core"
	"verifsim/gatesim"
)

func TestSim(t *testing.T) { core.Main(t, "gatesim", gatesim.Run) }
