package histsim_test

import (
	"testing"

	"verifsim/core"
	"verifsim/histsim"
)

func TestSim(t *testing.T) { core.Main(t, "histsim", histsim.Run) }
