package gensim_test

import (
	"os"
	"testing"

	"verifsim/core"
	"verifsim/gensim"
)

func TestMain(m *testing.M) {
	core.Plain = true
	code := m.Run()
	gensim.Cleanup()
	os.Exit(code)
}

func TestSim(t *testing.T) { core.Main(t, "gensim", gensim.Run) }
