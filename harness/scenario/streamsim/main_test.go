package streamsim_test

import (
	"testing"

	"verifsim/core"
	"verifsim/streamsim"
)

func TestSim(t *testing.T) { core.Main(t, "streamsim", streamsim.Run) }
