package wssim_test

import (
	"testing"

	"verifsim/core"
	"verifsim/wssim"
)

func TestSim(t *testing.T) { core.Main(t, "wssim", wssim.Run) }
