package execsim_test

import (
	"testing"

	"verifsim/core"
	"verifsim/execsim"
)

func TestSim(t *testing.T) { core.Main(t, "execsim", execsim.Run) }
