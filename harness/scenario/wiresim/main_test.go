package wiresim_test

import (
	"testing"

	"verifsim/core"
	"verifsim/wiresim"
)

func TestSim(t *testing.T) { core.Main(t, "wiresim", wiresim.Run) }
