// Command gen runs gqlgen's generator (api.Generate + stubgen) from the scratch copy of /repo
// for one probe variant. Usage: gen <config.yml> <stubfile> (cwd = module root).
package main

import (
	"fmt"
	"os"

	"github.com/99designs/gqlgen/api"
	"github.com/99designs/gqlgen/codegen/config"
	"github.com/99designs/gqlgen/plugin/stubgen"
)

func main() {
	if len(os.Args) < 3 {
		fmt.Fprintln(os.Stderr, "usage: gen <config> <stubfile>")
		os.Exit(2)
	}
	var cfg *config.Config
	var err error
	if os.Args[1] == "-auto" {
		// find gqlgen.yml upwards from the current directory, as the gqlgen command does
		cfg, err = config.LoadConfigFromDefaultLocations()
	} else {
		cfg, err = config.LoadConfig(os.Args[1])
	}
	if err != nil {
		fmt.Fprintln(os.Stderr, "load config:", err)
		os.Exit(1)
	}
	if err := api.Generate(cfg, api.AddPlugin(stubgen.New(os.Args[2], "Stub"))); err != nil {
		fmt.Fprintln(os.Stderr, "generate:", err)
		os.Exit(1)
	}
}
