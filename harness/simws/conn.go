// Package simws provides the simulated network for websocket sessions: a net.Pipe whose server
// half is wrapped so that the harness observes and controls every server-side Write, and a
// hijackable ResponseWriter handing that half to gqlgen's Upgrader.
package simws

import (
	"bufio"
	"encoding/json"
	"errors"
	"fmt"
	"net"
	"net/http"
	"sync"
	"sync/atomic"

	"verifsim/core"
)

// Frame is a server-written websocket frame as seen on the wire.
type Frame struct {
	Seq     int64
	Opcode  int
	Type    string // JSON "type" of text frames
	ID      string
	Payload json.RawMessage
	Raw     string
}

// WriteDecision is passed by the scheduler when it releases a parked server write.
type WriteDecision struct{ Fail bool }

// Conn wraps the server half of the pipe.
type Conn struct {
	net.Conn
	W    *core.World
	Name string
	Park bool
	Seq  *atomic.Int64 // global sequence shared with the rest of the monitor

	mu       sync.Mutex
	inWrite  atomic.Int32
	overlaps []string
	frames   []Frame
	failed   bool
	nWrite   int
	OnFrame  func(Frame)
	// OnAttempt sees a frame when the server starts writing it (before any parking or failure).
	OnAttempt func(Frame)
	// Decode is switched on once the HTTP handshake is over.
	Decode atomic.Bool
}

var ErrPeerGone = errors.New("simulated peer gone")

func decodeFrame(p []byte) (Frame, bool) {
	if len(p) < 2 {
		return Frame{}, false
	}
	f := Frame{Opcode: int(p[0] & 0x0f)}
	n := int(p[1] & 0x7f)
	off := 2
	switch n {
	case 126:
		if len(p) < 4 {
			return f, false
		}
		n = int(p[2])<<8 | int(p[3])
		off = 4
	case 127:
		if len(p) < 10 {
			return f, false
		}
		n = 0
		for i := 2; i < 10; i++ {
			n = n<<8 | int(p[i])
		}
		off = 10
	}
	if p[1]&0x80 != 0 {
		off += 4 // masked (never for server frames)
	}
	if len(p) < off+n {
		return f, false
	}
	payload := p[off : off+n]
	f.Raw = string(payload)
	if f.Opcode == 1 {
		var m struct {
			Type    string          `json:"type"`
			ID      string          `json:"id"`
			Payload json.RawMessage `json:"payload"`
		}
		if json.Unmarshal(payload, &m) == nil {
			f.Type, f.ID, f.Payload = m.Type, m.ID, m.Payload
		}
	}
	return f, true
}

func (c *Conn) Write(p []byte) (int, error) {
	if n := c.inWrite.Add(1); n > 1 {
		c.mu.Lock()
		c.overlaps = append(c.overlaps, fmt.Sprintf("a conn.Write of %d bytes entered while another was in progress", len(p)))
		c.mu.Unlock()
	}
	defer c.inWrite.Add(-1)
	c.mu.Lock()
	c.nWrite++
	n := c.nWrite
	failed := c.failed
	c.mu.Unlock()
	decode := c.Decode.Load() // sampled on entry: the handshake write must never count
	if decode && c.OnAttempt != nil {
		if f, ok := decodeFrame(p); ok {
			c.OnAttempt(f)
		}
	}
	if failed {
		return 0, ErrPeerGone
	}
	if c.Park {
		switch d := c.W.Park("ws-write", fmt.Sprintf("%s#%04d", c.Name, n), core.GoroutineRole()).(type) {
		case WriteDecision:
			if d.Fail {
				c.mu.Lock()
				c.failed = true
				c.mu.Unlock()
				return 0, ErrPeerGone
			}
		case core.Kill:
			return 0, ErrPeerGone
		}
	}
	nn, err := c.Conn.Write(p)
	if err == nil && decode {
		if f, ok := decodeFrame(p); ok {
			f.Seq = c.Seq.Add(1)
			c.mu.Lock()
			c.frames = append(c.frames, f)
			c.mu.Unlock()
			if c.OnFrame != nil {
				c.OnFrame(f)
			}
		}
	}
	return nn, err
}

func (c *Conn) Frames() []Frame {
	c.mu.Lock()
	defer c.mu.Unlock()
	return append([]Frame(nil), c.frames...)
}

func (c *Conn) Overlaps() []string {
	c.mu.Lock()
	defer c.mu.Unlock()
	return append([]string(nil), c.overlaps...)
}

// HijackWriter is the ResponseWriter given to Server.ServeHTTP for an upgrade request.
type HijackWriter struct {
	C      net.Conn
	BRW    *bufio.ReadWriter
	hdr    http.Header
	Status int
	Body   []byte
}

func (h *HijackWriter) Header() http.Header {
	if h.hdr == nil {
		h.hdr = http.Header{}
	}
	return h.hdr
}
func (h *HijackWriter) WriteHeader(code int) {
	if h.Status == 0 {
		h.Status = code
	}
}
func (h *HijackWriter) Write(p []byte) (int, error) {
	h.Body = append(h.Body, p...)
	return len(p), nil
}
func (h *HijackWriter) Hijack() (net.Conn, *bufio.ReadWriter, error) { return h.C, h.BRW, nil }
