package gatesim

import (
	"strings"

	"verifsim/ops"
)

// Req is one request of a history.
type Req struct {
	Query  string
	OpName string
	Vars   map[string]any
	Kind   string // how it was derived (valid, unbalanced, unknown-field, ...)
}

// Twins are pairs of documents that differ only in characters a careless cache key might
// normalise away; the first is valid, the second must get its own verdict.
var Twins = [][2]Req{
	{{Kind: "twin-comment-valid", Query: "{ hello # greeting\n}"}, {Kind: "twin-comment-invalid", Query: "{ hello # greeting }"}},
	{{Kind: "twin-comment2-valid", Query: "{ me { id # x\n name } }"}, {Kind: "twin-comment2-invalid", Query: "{ me { id # x name } }"}},
	{{Kind: "twin-case-valid", Query: "{ hello }"}, {Kind: "twin-case-invalid", Query: "{ HELLO }"}},
	{{Kind: "twin-space-valid", Query: "{ me { id name } }"}, {Kind: "twin-space-invalid", Query: "{ me { idname } }"}},
	{{Kind: "twin-trailing-valid", Query: "{ maybe }"}, {Kind: "twin-trailing-invalid", Query: "{ maybe } }"}},
	{{Kind: "twin-string-valid", Query: `{ user(id:"a b") { id } }`}, {Kind: "twin-string-invalid", Query: `{ user(id:"a b) { id } }`}},
}

// Pool returns valid corpus requests and systematically invalidated variants of them.
func Pool() []Req {
	var out []Req
	add := func(kind, q, opName string, vars map[string]any) {
		out = append(out, Req{Query: q, OpName: opName, Vars: vars, Kind: kind})
	}
	for _, op := range ops.Corpus {
		add("valid", op.Query, op.OpName, op.Vars)
	}
	base := []ops.Op{ops.Corpus[2], ops.Corpus[4], ops.Corpus[9], ops.Corpus[12], ops.Corpus[17], ops.Corpus[31]}
	for _, op := range base {
		q := op.Query
		add("unbalanced", strings.TrimSuffix(strings.TrimSpace(q), "}"), op.OpName, op.Vars)
		add("unknown-field", strings.Replace(q, " name", " nope", 1)+" ", op.OpName, op.Vars)
		add("unknown-field-2", strings.Replace(q, "{ id", "{ idd", 1)+"  ", op.OpName, op.Vars)
		add("unknown-op-name", q, "NoSuchOp", op.Vars)
		add("unused-fragment", q+" fragment Unused on User { id }", op.OpName, op.Vars)
		add("fragment-cycle", q+" fragment A1 on User { ...B1 } fragment B1 on User { ...A1 }", op.OpName, op.Vars)
		add("garbage", "}{ "+q, op.OpName, op.Vars)
	}
	add("empty", "", "", nil)
	add("no-operation", "fragment F on User { id }", "", nil)
	add("unknown-argument", `{ user(id:"1", nope: 3) { id } }`, "", nil)
	add("missing-required-arg", `{ user { id } }`, "", nil)
	add("wrong-arg-type", `{ user(id: {a:1}) { id } }`, "", nil)
	add("scalar-with-selection", `{ hello { x } }`, "", nil)
	add("object-without-selection", `{ me }`, "", nil)
	add("two-anonymous", `{ hello } { maybe }`, "", nil)
	add("ambiguous-op", `query A { hello } query B { maybe }`, "", nil)
	add("named-op-ok", `query A { hello } query B { maybe }`, "A", nil)
	add("undefined-variable", `{ user(id:$x) { id } }`, "", nil)
	add("unused-variable", `query($x:ID){ hello }`, "", nil)
	add("var-wrong-type", `query($s:Boolean!){ hello @skip(if:$s) maybe }`, "", map[string]any{"s": "yes"})
	add("var-missing", `query($s:Boolean!){ hello @skip(if:$s) maybe }`, "", nil)
	add("var-null-for-nonnull", `query($s:Boolean!){ hello @skip(if:$s) maybe }`, "", map[string]any{"s": nil})
	add("var-ok", `query($s:Boolean!){ hello @skip(if:$s) maybe }`, "", map[string]any{"s": false})
	add("var-unknown", `query($s:Boolean!){ hello @skip(if:$s) maybe }`, "", map[string]any{"s": true, "zzz": 1})
	add("var-input-bad", `query($f:Filter){ search(f:$f) { __typename } }`, "", map[string]any{"f": map[string]any{"limit": "notanint"}})
	add("var-input-unknown-field", `query($f:Filter){ search(f:$f) { __typename } }`, "", map[string]any{"f": map[string]any{"nope": 1}})
	add("var-input-ok", `query($f:Filter){ search(f:$f) { __typename } }`, "", map[string]any{"f": map[string]any{"limit": 2}})
	add("mutation-valid", `mutation { inc(by:1) }`, "", nil)
	add("mutation-bad-arg", `mutation { inc(by:"x") }`, "", nil)
	add("directive-misplaced", `{ hello @guard }`, "", nil)
	add("unknown-directive", `{ hello @nope }`, "", nil)
	add("fragment-wrong-type", `{ me { ... on Post { title } } }`, "", nil)
	add("conflicting-alias", `{ me { a: name a: nick } }`, "", nil)
	return out
}
