package gatesim

import (
	"bytes"
	"context"
	"encoding/json"
	"fmt"
	"net/http/httptest"
	"sort"
	"strings"
	"sync"
	"testing/synctest"

	"github.com/99designs/gqlgen/graphql"
	"github.com/99designs/gqlgen/graphql/executor"
	"github.com/99designs/gqlgen/graphql/handler"
	"github.com/99designs/gqlgen/graphql/handler/lru"
	"github.com/99designs/gqlgen/graphql/handler/transport"
	"github.com/vektah/gqlparser/v2/ast"
	"github.com/vektah/gqlparser/v2/parser"
	"github.com/vektah/gqlparser/v2/validator"

	"verifsim/core"
	"verifsim/execsim"
	"verifsim/ops"
	"verifsim/parsers"
	"verifsim/probereg"
	"verifsim/refexec"
	"verifsim/uni"
)

// simCache is the harness-owned query cache: every Get/Add parks at the scheduler, entries can
// be evicted at any quiescent point, and an Add may be dropped.
type simCache struct {
	w    *core.World
	mu   sync.Mutex
	m    map[string]*ast.QueryDocument
	park bool
	drop func() bool
	// keyOf returns the exact query text of a request: the document cache must be keyed by it
	keyOf  func(req int) string
	badKey string
}

func (c *simCache) noteKey(ctx context.Context, key string) {
	if c.keyOf == nil {
		return
	}
	if want := c.keyOf(reqOf(ctx)); key != want {
		c.mu.Lock()
		if c.badKey == "" {
			c.badKey = fmt.Sprintf("request %d with query %q used cache key %q", reqOf(ctx), want, key)
		}
		c.mu.Unlock()
	}
}

func (c *simCache) Get(ctx context.Context, key string) (*ast.QueryDocument, bool) {
	c.noteKey(ctx, key)
	if c.park {
		c.w.Park("cache-get", fmt.Sprintf("r%d", reqOf(ctx)), nil)
	}
	c.mu.Lock()
	defer c.mu.Unlock()
	d, ok := c.m[key]
	if ok {
		c.w.Count("cache_hits")
	}
	return d, ok
}

func (c *simCache) Add(ctx context.Context, key string, v *ast.QueryDocument) {
	c.noteKey(ctx, key)
	if c.park {
		c.w.Park("cache-add", fmt.Sprintf("r%d", reqOf(ctx)), nil)
	}
	c.mu.Lock()
	defer c.mu.Unlock()
	c.m[key] = v
	c.w.Count("cache_adds")
}

func (c *simCache) keys() []string {
	c.mu.Lock()
	defer c.mu.Unlock()
	var ks []string
	for k := range c.m {
		ks = append(ks, k)
	}
	sort.Strings(ks)
	return ks
}

func (c *simCache) evict(k string) {
	c.mu.Lock()
	delete(c.m, k)
	c.mu.Unlock()
}

// ColdEvery: run indices that are multiples of it start in a fresh worker process (must equal the
// check's ChunkRuns).
const ColdEvery = 250

// verdict is what the harness expects of a request, computed with gqlparser only.
type verdict struct {
	Accepted bool
	Reason   string
	Doc      *ast.QueryDocument
	Op       *ast.OperationDefinition
	Vars     map[string]any
	// when an extension rejects: which hooks still run
	PMUpTo int // parameter mutators with index <= PMUpTo run (-1: none limit)
	CMUpTo int
}

func judge(schema *ast.Schema, r Req, tokenLimit int) verdict {
	doc, err := parser.ParseQueryWithTokenLimit(&ast.Source{Input: r.Query}, tokenLimit)
	if err != nil {
		return verdict{Reason: "parse"}
	}
	if len(doc.Operations) == 0 {
		return verdict{Reason: "no-operation"}
	}
	if errs := ops.Validate(schema, doc); len(errs) > 0 {
		return verdict{Reason: "validation"}
	}
	op := doc.Operations.ForName(r.OpName)
	if op == nil {
		return verdict{Reason: "operation-selection"}
	}
	vars, verr := validator.VariableValues(schema, op, r.Vars)
	if verr != nil {
		return verdict{Reason: "variables"}
	}
	return verdict{Accepted: true, Doc: doc, Op: op, Vars: vars}
}

type extCfg struct {
	Mask     int
	RejectPM map[int]bool
	RejectCM map[int]bool
}

type result struct {
	Body     string // HTTP body or JSON of the payload
	Status   int
	HasData  bool
	Data     *parsers.J
	Errors   []refexec.Err
	NErrors  int
	Done     bool
	GateErrs int
}

// Run is the scenario body.
func Run(rc *core.RunCtx) {
	t := rc.Tape
	w := rc.W
	v := &probereg.Core[t.Choose(len(probereg.Core), "variant")]
	pool := Pool()
	plan := &refexec.Plan{Seed: uint64(t.Choose(1<<16, "planseed")), MaxList: 2, NullPM: []int{0, 100}[t.Choose(2, "nullpm")], ErrPM: []int{0, 100}[t.Choose(2, "errpm")]}
	u := uni.New(w, v, plan)
	schema := u.Schema

	// history
	n := 1 + t.Choose(8, "nreq")
	if rc.Tier == "thorough" {
		n = 1 + t.Choose(12, "nreq")
	}
	// a small working set so that documents repeat (cache hits, including of invalid documents)
	ws := make([]Req, 1+t.Choose(4, "wset"))
	for i := range ws {
		ws[i] = pool[t.Choose(len(pool), "req")]
	}
	if t.Bool(1, 4, "twins") {
		tw := Twins[t.Choose(len(Twins), "twin")]
		ws = append(ws, tw[0], tw[1])
	}
	coldStart := rc.Res.Idx%ColdEvery == 0
	// parser token limit (0 = none): a document that exceeds it fails parsing
	tokenLimit := []int{0, 0, 0, 10, 25, 60}[t.Choose(6, "token-limit")]
	reqs := make([]Req, n)
	verdicts := make([]verdict, n)
	for i := range reqs {
		reqs[i] = ws[t.Choose(len(ws), "pick")]
		verdicts[i] = judge(schema, reqs[i], tokenLimit)
		if tokenLimit > 0 && verdicts[i].Reason == "parse" {
			if _, perr := parser.ParseQuery(&ast.Source{Input: reqs[i].Query}); perr == nil {
				verdicts[i].Reason = "token-limit"
				w.Count("token_limit_rejections")
			}
		}
	}

	// extensions
	nExt := t.Choose(5, "next")
	exts := make([]extCfg, nExt)
	mon := &monitor{evs: map[int][]Ev{}}
	for i := range exts {
		exts[i] = extCfg{Mask: 1 + t.Choose(63, "mask"), RejectPM: map[int]bool{}, RejectCM: map[int]bool{}}
		for r := 0; r < n; r++ {
			if exts[i].Mask&1 != 0 && t.Bool(1, 8, "rejpm") {
				exts[i].RejectPM[r] = true
			}
			if exts[i].Mask&2 != 0 && t.Bool(1, 8, "rejcm") {
				exts[i].RejectCM[r] = true
			}
		}
	}
	cacheKind := t.Choose(4, "cache") // 0 none, 1 sim cache, 2 sim cache parking, 3 lru
	// per process, not per run: disabling suggestions changes gqlparser's process-global rule list
	disableSuggestion := core.ProcChoice(3) == 1
	viaHTTP := t.Bool(1, 2, "http")
	parkRes := t.Bool(2, 3, "parkres")
	u.Park = parkRes

	var sc *simCache
	var cache graphql.Cache[*ast.QueryDocument]
	switch cacheKind {
	case 1, 2:
		sc = &simCache{w: w, m: map[string]*ast.QueryDocument{}, park: cacheKind == 2}
		sc.keyOf = func(r int) string {
			if r >= 0 && r < len(reqs) {
				return reqs[r].Query
			}
			return ""
		}
		cache = sc
	case 3:
		cache = lru.New[*ast.QueryDocument](1 + t.Choose(3, "lrusize"))
	}
	u.OnCall = func(ctx context.Context, kind, path string) { mon.add(reqOf(ctx), kind, -1, path) }
	u.KeyPrefix = func(ctx context.Context) string { return fmt.Sprintf("r%d:", reqOf(ctx)) }
	v.SetBlobHook(nil)

	var ex *executor.Executor
	var srv *handler.Server
	var hexts []graphql.HandlerExtension
	for i, ec := range exts {
		ec := ec
		c := &extCore{idx: i, mon: mon, rejectPM: func(r int) bool { return ec.RejectPM[r] }, rejectCM: func(r int) bool { return ec.RejectCM[r] }}
		hexts = append(hexts, newExt(ec.Mask, c))
	}
	rec := func(ctx context.Context, err any) error { return fmt.Errorf("recovered:%v", err) }
	if viaHTTP {
		srv = handler.New(u.ES)
		srv.AddTransport(transport.POST{})
		srv.SetRecoverFunc(rec)
		if cache != nil {
			srv.SetQueryCache(cache)
		}
		srv.SetDisableSuggestion(disableSuggestion)
		srv.SetParserTokenLimit(tokenLimit)
		for _, e := range hexts {
			srv.Use(e)
		}
	} else {
		ex = executor.New(u.ES)
		ex.SetRecoverFunc(rec)
		if cache != nil {
			ex.SetQueryCache(cache)
		}
		ex.SetDisableSuggestion(disableSuggestion)
		ex.SetParserTokenLimit(tokenLimit)
		for _, e := range hexts {
			ex.Use(e)
		}
	}

	// expected effect of rejecting extensions
	for r := range verdicts {
		verdicts[r].PMUpTo, verdicts[r].CMUpTo = -1, -1
		rejected := false
		for i, ec := range exts {
			if ec.Mask&1 != 0 && ec.RejectPM[r] {
				verdicts[r].PMUpTo = i
				rejected = true
				verdicts[r].Accepted = false
				verdicts[r].Reason = "parameter-mutator"
				break
			}
		}
		if rejected || !verdicts[r].Accepted {
			continue
		}
		for i, ec := range exts {
			if ec.Mask&2 != 0 && ec.RejectCM[r] {
				verdicts[r].CMUpTo = i
				verdicts[r].Accepted = false
				verdicts[r].Reason = "context-mutator"
				break
			}
		}
	}

	results := make([]*result, n)
	var rmu sync.Mutex
	doneCh := make([]chan struct{}, n)
	launch := func(i int) {
		doneCh[i] = make(chan struct{})
		ctx := context.WithValue(context.Background(), reqKey{}, i)
		r := reqs[i]
		// every client sends its own JSON: never share a variables map between requests
		// (gqlparser's VariableValues writes input-object defaults into it)
		if r.Vars != nil {
			b, _ := json.Marshal(r.Vars)
			var cp map[string]any
			dec := json.NewDecoder(bytes.NewReader(b))
			dec.UseNumber() // as gqlgen's transports decode
			dec.Decode(&cp)
			r.Vars = cp
		}
		go func() {
			defer close(doneCh[i])
			res := &result{}
			if viaHTTP {
				body, _ := json.Marshal(map[string]any{"query": r.Query, "variables": r.Vars, "operationName": r.OpName})
				hr := httptest.NewRequest("POST", "/query", bytes.NewReader(body)).WithContext(ctx)
				hr.Header.Set("Content-Type", "application/json")
				rw := httptest.NewRecorder()
				srv.ServeHTTP(rw, hr)
				res.Status, res.Body = rw.Code, rw.Body.String()
			} else {
				ctx = graphql.StartOperationTrace(ctx)
				params := &graphql.RawParams{Query: r.Query, OperationName: r.OpName, Variables: r.Vars}
				opc, errs := ex.CreateOperationContext(ctx, params)
				var resp *graphql.Response
				if len(errs) > 0 {
					res.GateErrs = len(errs)
					resp = ex.DispatchError(graphql.WithOperationContext(ctx, opc), errs)
				} else {
					h, hctx := ex.DispatchOperation(ctx, opc)
					resp = h(hctx)
				}
				b, _ := json.Marshal(resp)
				res.Body = string(b)
			}
			res.Done = true
			rmu.Lock()
			results[i] = res
			rmu.Unlock()
		}()
	}

	next := 0
	inflight := func() int {
		k := 0
		for i := 0; i < next; i++ {
			select {
			case <-doneCh[i]:
			default:
				k++
			}
		}
		return k
	}
	maxOverlap := 0
	stuck := false
	for step := 0; step < 4000; step++ {
		synctest.Wait()
		w.NextStep()
		items := w.Parked()
		fl := inflight()
		if fl > maxOverlap {
			maxOverlap = fl
		}
		if next >= n && fl == 0 {
			break
		}
		type action struct {
			kind string
			it   *core.Item
			key  string
		}
		var acts []action
		for _, it := range items {
			acts = append(acts, action{kind: "release", it: it})
		}
		if next < n && fl < 3 {
			acts = append(acts, action{kind: "launch"})
			if n-next >= 2 && fl == 0 {
				acts = append(acts, action{kind: "launch2"})
			}
		}
		if sc != nil {
			for _, k := range sc.keys() {
				if t.Bool(1, 6, "evict?") {
					acts = append(acts, action{kind: "evict", key: k})
				}
			}
		}
		if len(acts) == 0 {
			stuck = true
			site, dump := core.StuckSite()
			rc.Fail("stuck", site, "requests in flight but nothing enabled\n%s", dump)
			break
		}
		a := acts[t.Choose(len(acts), "act")]
		if coldStart && next == 0 && fl == 0 && n >= 2 {
			// run indices that are multiples of ColdEvery are the first run of a fresh worker
			// process (the orchestrator restarts workers there): start with two requests at
			// once, so that whatever the process sets up on first use is set up under contention
			a = action{kind: "launch2"}
		}
		switch a.kind {
		case "release":
			w.Release(a.it, nil)
		case "launch":
			w.Logf("launch", fmt.Sprint(next), "%s", reqs[next].Kind)
			launch(next)
			next++
		case "launch2":
			w.Logf("launch2", fmt.Sprint(next), "")
			launch(next)
			launch(next + 1)
			next += 2
			w.Count("burst_launches")
		case "evict":
			sc.evict(a.key)
			w.Count("evictions")
		}
	}
	if stuck || rc.Failed() {
		return
	}

	// oracle
	if sc != nil && sc.badKey != "" {
		rc.Fail("document-cache-key-is-not-the-query-text", "cache", "%s", sc.badKey)
		return
	}
	nRejected, nAccepted := 0, 0
	for i := 0; i < n; i++ {
		res := results[i]
		if res == nil || !res.Done {
			rc.Fail("request-unfinished", "request", "request %d never finished", i)
			return
		}
		vd := verdicts[i]
		evs := mon.evs[i]
		desc := func() string {
			var sb strings.Builder
			fmt.Fprintf(&sb, "request %d (%s, expected %s) query=%q opName=%q vars=%v http=%v cache=%d nosuggest=%v tokenlimit=%d exts=%v\nresponse: %s\nevents:", i, reqs[i].Kind, map[bool]string{true: "accepted", false: "rejected:" + vd.Reason}[vd.Accepted], reqs[i].Query, reqs[i].OpName, reqs[i].Vars, viaHTTP, cacheKind, disableSuggestion, tokenLimit, masks(exts), res.Body)
			for _, e := range evs {
				fmt.Fprintf(&sb, " %s/%d/%s", e.Kind, e.Ext, e.Path)
			}
			return sb.String()
		}
		j, err := parsers.ParseJSON([]byte(res.Body))
		if err != nil || j.K != parsers.Obj {
			rc.Fail("response-not-json", "response", "%v\n%s", err, desc())
			return
		}
		data := j.Get("data")
		errsJ := j.Get("errors")
		if !vd.Accepted {
			nRejected++
			w.Count("rejected_" + vd.Reason)
			for _, e := range evs {
				switch e.Kind {
				case "pm":
					if vd.Reason == "parameter-mutator" && e.Ext > vd.PMUpTo {
						rc.Fail("hook-after-rejection", "pm", "parameter mutator %d ran after mutator %d rejected\n%s", e.Ext, vd.PMUpTo, desc())
						return
					}
				case "cm":
					if vd.Reason != "context-mutator" || e.Ext > vd.CMUpTo {
						rc.Fail("hook-after-rejection", "cm", "context mutator %d ran for a rejected request\n%s", e.Ext, desc())
						return
					}
				case "resp-enter", "resp-exit":
					// the error response itself passes through response interceptors
				default:
					rc.Fail("executed-despite-rejection", e.Kind, "a %s event was recorded for a request that must be rejected (%s)\n%s", e.Kind, vd.Reason, desc())
					return
				}
			}
			if data != nil && !data.IsNull() {
				rc.Fail("rejected-request-has-data", vd.Reason, "%s", desc())
				return
			}
			if errsJ == nil || errsJ.K != parsers.Arr || len(errsJ.A) == 0 {
				rc.Fail("rejected-request-without-errors", vd.Reason, "%s", desc())
				return
			}
			continue
		}
		nAccepted++
		// accepted: response equals the reference, and the lifecycle grammar holds
		env := u.Env()
		ref := refexec.Execute(env, vd.Doc, vd.Op, vd.Vars)
		if data == nil {
			rc.Fail("accepted-request-without-data", "response", "%s", desc())
			return
		}
		if got, want := data.Canon(), ref.Data.Canon(); got != want {
			rc.Fail("data-mismatch", "response", "expected %s\n%s", want, desc())
			return
		}
		if msg := grammar(evs, exts, ref, vd.Op); msg != "" {
			rc.Fail("lifecycle-order", grammarSite(msg), "%s\n%s", msg, desc())
			return
		}
	}
	w.CountN("requests", n)
	w.CountN("requests_accepted", nAccepted)
	w.CountN("requests_rejected", nRejected)
	if maxOverlap >= 2 {
		w.Count("overlapped_histories")
	}
	rc.Res.Nontrivial = n >= 2 || nExt > 0
	var sig []string
	for i := range reqs {
		sig = append(sig, reqs[i].Kind)
	}
	rc.Res.Sig = execsim.SigOf(v.Name, strings.Join(sig, ","), masks(exts), cacheKind, disableSuggestion, tokenLimit, viaHTTP, w.LogHash())
	rc.Res.Sample = map[string]any{"variant": v.Name, "requests": sig, "extension_masks": masks(exts), "cache": cacheKind, "disable_suggestion": disableSuggestion, "token_limit": tokenLimit, "http": viaHTTP, "max_overlap": maxOverlap}
}

func masks(exts []extCfg) []int {
	var m []int
	for _, e := range exts {
		m = append(m, e.Mask)
	}
	return m
}

func grammarSite(msg string) string {
	if i := strings.Index(msg, ":"); i > 0 {
		return msg[:i]
	}
	return "grammar"
}

// grammar checks the event sequence of one accepted query/mutation request.
func grammar(evs []Ev, exts []extCfg, ref *refexec.Result, op *ast.OperationDefinition) string {
	with := func(bit int) []int {
		var out []int
		for i, e := range exts {
			if e.Mask&bit != 0 {
				out = append(out, i)
			}
		}
		return out
	}
	seqOf := func(kind string) []int {
		var out []int
		for _, e := range evs {
			if e.Kind == kind {
				out = append(out, e.Ext)
			}
		}
		return out
	}
	eq := func(a, b []int) bool {
		if len(a) != len(b) {
			return false
		}
		for i := range a {
			if a[i] != b[i] {
				return false
			}
		}
		return true
	}
	rev := func(a []int) []int {
		out := make([]int, len(a))
		for i := range a {
			out[len(a)-1-i] = a[i]
		}
		return out
	}
	// once each, registration order
	if got, want := seqOf("pm"), with(1); !eq(got, want) {
		return fmt.Sprintf("param-mutators: ran %v, registration order is %v", got, want)
	}
	if got, want := seqOf("cm"), with(2); !eq(got, want) {
		return fmt.Sprintf("context-mutators: ran %v, registration order is %v", got, want)
	}
	if got, want := seqOf("op-enter"), with(4); !eq(got, want) {
		return fmt.Sprintf("operation-interceptors: entered %v, expected %v (first registered outermost, once per operation)", got, want)
	}
	if got, want := seqOf("resp-enter"), with(8); !eq(got, want) {
		return fmt.Sprintf("response-interceptors: entered %v, expected %v (once per response)", got, want)
	}
	if got, want := seqOf("resp-exit"), rev(with(8)); !eq(got, want) {
		return fmt.Sprintf("response-interceptors: exited %v, expected %v", got, want)
	}
	// phase order: all pm < all cm < first op-enter < first resp-enter < everything else < resp exits
	phase := map[string]int{"pm": 0, "cm": 1, "op-enter": 2, "op-exit": 3, "resp-enter": 4, "root-enter": 5, "root-exit": 5, "field-enter": 5, "field-exit": 5, "dir": 5, "res": 5, "resp-exit": 6}
	last := 0
	for _, e := range evs {
		p := phase[e.Kind]
		if p < last {
			return fmt.Sprintf("phase-order: %s event after a later lifecycle phase", e.Kind)
		}
		last = p
	}
	// root fields
	rootExts := with(16)
	rootKeys := map[string]bool{}
	for _, f := range ref.Fields {
		if !strings.ContainsAny(f, ".[") {
			rootKeys[f] = true
		}
	}
	for key := range rootKeys {
		var enter, exit []int
		for _, e := range evs {
			if e.Path == key && e.Kind == "root-enter" {
				enter = append(enter, e.Ext)
			}
			if e.Path == key && e.Kind == "root-exit" {
				exit = append(exit, e.Ext)
			}
		}
		if !eq(enter, rootExts) || !eq(exit, rev(rootExts)) {
			return fmt.Sprintf("root-field-interceptors: root field %q entered %v exited %v, expected %v / reverse (once per root field)", key, enter, exit, rootExts)
		}
	}
	for _, e := range evs {
		if (e.Kind == "root-enter") && !rootKeys[e.Path] {
			return fmt.Sprintf("root-field-interceptors: unexpected root field %q", e.Path)
		}
	}
	// fields: exactly once per executed field position, nested in registration order, and the
	// directive/resolver events of the position inside the innermost interceptor
	fieldExts := with(32)
	want := map[string]int{}
	for _, f := range ref.Fields {
		want[f]++
	}
	per := map[string][]Ev{}
	for _, e := range evs {
		switch e.Kind {
		case "field-enter", "field-exit", "dir", "res":
			per[e.Path] = append(per[e.Path], e)
		}
	}
	for path, l := range per {
		if want[path] == 0 {
			return fmt.Sprintf("field-events: events for position %q which the reference does not execute", path)
		}
		var enter, exit []int
		inner := 0
		for _, e := range l {
			switch e.Kind {
			case "field-enter":
				enter = append(enter, e.Ext)
			case "field-exit":
				exit = append(exit, e.Ext)
			default:
				if len(enter) != len(fieldExts) || len(exit) != 0 {
					return fmt.Sprintf("field-interceptors: %s of %q ran outside the interceptor chain (entered %v exited %v)", e.Kind, path, enter, exit)
				}
				inner++
			}
		}
		if !eq(enter, fieldExts) || !eq(exit, rev(fieldExts)) {
			return fmt.Sprintf("field-interceptors: position %q entered %v exited %v, expected %v / reverse (once per field)", path, enter, exit, fieldExts)
		}
	}
	if len(fieldExts) > 0 {
		for f := range want {
			if len(per[f]) == 0 {
				return fmt.Sprintf("field-interceptors: position %q was never intercepted", f)
			}
		}
	}
	// resolver calls exactly once per reference resolver position
	resWant := map[string]int{}
	for _, r := range ref.Resolved {
		resWant[r]++
	}
	for _, e := range evs {
		if e.Kind == "res" {
			resWant[e.Path]--
		}
	}
	for p, c := range resWant {
		if c != 0 {
			return fmt.Sprintf("resolver-count: position %q resolver calls differ from the reference by %d", p, -c)
		}
	}
	return ""
}
