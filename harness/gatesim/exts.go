// Package gatesim is the request-gate simulation for C03: histories of requests against one
// executor / handler.Server with instrumented extensions, a harness-owned query cache and the
// universal resolver; the oracle is a lifecycle grammar over the hook/resolver event log.
package gatesim

import (
	"context"
	"fmt"
	"sync"

	"github.com/99designs/gqlgen/graphql"
	"github.com/vektah/gqlparser/v2/gqlerror"
)

type reqKey struct{}

func reqOf(ctx context.Context) int {
	if v, ok := ctx.Value(reqKey{}).(int); ok {
		return v
	}
	return -1
}

// Ev is one monitored event.
type Ev struct {
	Seq  int
	Req  int
	Kind string // pm cm op-enter op-exit resp-enter resp-exit root-enter root-exit field-enter field-exit dir res
	Ext  int
	Path string
}

type monitor struct {
	mu  sync.Mutex
	seq int
	evs map[int][]Ev
}

func (m *monitor) add(req int, kind string, ext int, path string) {
	m.mu.Lock()
	m.seq++
	m.evs[req] = append(m.evs[req], Ev{Seq: m.seq, Req: req, Kind: kind, Ext: ext, Path: path})
	m.mu.Unlock()
}

type extCore struct {
	idx int
	mon *monitor
	// rejectPM / rejectCM decide per request id
	rejectPM func(req int) bool
	rejectCM func(req int) bool
}

type extBase struct{ c *extCore }

func (e extBase) ExtensionName() string                          { return fmt.Sprintf("SimExt%d", e.c.idx) }
func (e extBase) Validate(schema graphql.ExecutableSchema) error { return nil }

type mPM struct{ c *extCore }

func (m mPM) MutateOperationParameters(ctx context.Context, request *graphql.RawParams) *gqlerror.Error {
	req := reqOf(ctx)
	m.c.mon.add(req, "pm", m.c.idx, "")
	if m.c.rejectPM != nil && m.c.rejectPM(req) {
		return gqlerror.Errorf("X:rejected by parameter mutator %d", m.c.idx)
	}
	return nil
}

type mCM struct{ c *extCore }

func (m mCM) MutateOperationContext(ctx context.Context, opCtx *graphql.OperationContext) *gqlerror.Error {
	req := reqOf(ctx)
	m.c.mon.add(req, "cm", m.c.idx, "")
	if m.c.rejectCM != nil && m.c.rejectCM(req) {
		return gqlerror.Errorf("X:rejected by context mutator %d", m.c.idx)
	}
	return nil
}

type mOI struct{ c *extCore }

func (m mOI) InterceptOperation(ctx context.Context, next graphql.OperationHandler) graphql.ResponseHandler {
	req := reqOf(ctx)
	m.c.mon.add(req, "op-enter", m.c.idx, "")
	h := next(ctx)
	m.c.mon.add(req, "op-exit", m.c.idx, "")
	return h
}

type mRI struct{ c *extCore }

func (m mRI) InterceptResponse(ctx context.Context, next graphql.ResponseHandler) *graphql.Response {
	req := reqOf(ctx)
	m.c.mon.add(req, "resp-enter", m.c.idx, "")
	r := next(ctx)
	m.c.mon.add(req, "resp-exit", m.c.idx, "")
	return r
}

type mRF struct{ c *extCore }

func (m mRF) InterceptRootField(ctx context.Context, next graphql.RootResolver) graphql.Marshaler {
	req := reqOf(ctx)
	path := ""
	if rf := graphql.GetRootFieldContext(ctx); rf != nil && rf.Field.Field != nil {
		path = rf.Field.Alias
	}
	m.c.mon.add(req, "root-enter", m.c.idx, path)
	r := next(ctx)
	m.c.mon.add(req, "root-exit", m.c.idx, path)
	return r
}

type mFI struct{ c *extCore }

func (m mFI) InterceptField(ctx context.Context, next graphql.Resolver) (any, error) {
	req := reqOf(ctx)
	path := graphql.GetFieldContext(ctx).Path().String()
	m.c.mon.add(req, "field-enter", m.c.idx, path)
	r, err := next(ctx)
	m.c.mon.add(req, "field-exit", m.c.idx, path)
	return r, err
}
