package parsers

import (
	"fmt"
	"strings"
)

// SSEEvent is one parsed server-sent event.
type SSEEvent struct {
	Kind string // comment | next | complete
	Data string // JSON text for next
}

// ParseSSE parses a complete gqlgen SSE stream strictly: events are separated by a blank line; an
// event is a comment (":" or ": ping"), "event: next" followed by exactly one "data:" line, or
// "event: complete". When prefixOK is set the stream may end in the middle of an event (client
// disconnected): the parsed events are those complete before the cut.
func ParseSSE(b []byte, prefixOK bool) ([]SSEEvent, error) {
	s := string(b)
	var out []SSEEvent
	for len(s) > 0 {
		i := strings.Index(s, "\n\n")
		if i < 0 {
			if prefixOK {
				return out, nil
			}
			return out, fmt.Errorf("stream ends inside an event: %q", clip(s))
		}
		block := s[:i]
		s = s[i+2:]
		lines := strings.Split(block, "\n")
		switch {
		case len(lines) == 1 && (lines[0] == ":" || lines[0] == ": ping"):
			out = append(out, SSEEvent{Kind: "comment"})
		case len(lines) == 1 && lines[0] == "event: complete":
			out = append(out, SSEEvent{Kind: "complete"})
		case len(lines) == 2 && lines[0] == "event: next" && strings.HasPrefix(lines[1], "data: "):
			out = append(out, SSEEvent{Kind: "next", Data: strings.TrimPrefix(lines[1], "data: ")})
		default:
			return out, fmt.Errorf("malformed event %q", clip(block))
		}
	}
	return out, nil
}

func clip(s string) string {
	if len(s) > 200 {
		return s[:200] + "…"
	}
	return s
}
