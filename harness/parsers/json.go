// Package parsers holds the strict, independent parsers used as oracles: RFC 8259 JSON with
// UTF-8 validation and key order preserved, server-sent events, and helpers for multipart.
package parsers

import (
	"fmt"
	"strconv"
	"strings"
	"unicode/utf8"
)

type Kind int

const (
	Null Kind = iota
	Bool
	Num
	Str
	Arr
	Obj
)

// J is an ordered JSON value.
type J struct {
	K    Kind
	B    bool
	N    string // number literal as written
	S    string
	A    []*J
	Keys []string
	Vals []*J
}

type parser struct {
	b []byte
	i int
}

// ParseJSON parses exactly one JSON text (RFC 8259), rejecting invalid UTF-8, raw control
// characters in strings, duplicate keys, and trailing garbage.
func ParseJSON(b []byte) (*J, error) {
	if !utf8.Valid(b) {
		return nil, fmt.Errorf("invalid UTF-8")
	}
	p := &parser{b: b}
	p.ws()
	v, err := p.value(0)
	if err != nil {
		return nil, err
	}
	p.ws()
	if p.i != len(p.b) {
		return nil, fmt.Errorf("trailing bytes at %d", p.i)
	}
	return v, nil
}

func (p *parser) ws() {
	for p.i < len(p.b) && (p.b[p.i] == ' ' || p.b[p.i] == '\t' || p.b[p.i] == '\n' || p.b[p.i] == '\r') {
		p.i++
	}
}

func (p *parser) value(depth int) (*J, error) {
	if depth > 200 {
		return nil, fmt.Errorf("too deep")
	}
	if p.i >= len(p.b) {
		return nil, fmt.Errorf("unexpected end")
	}
	switch c := p.b[p.i]; {
	case c == '{':
		p.i++
		o := &J{K: Obj}
		p.ws()
		if p.i < len(p.b) && p.b[p.i] == '}' {
			p.i++
			return o, nil
		}
		seen := map[string]bool{}
		for {
			p.ws()
			if p.i >= len(p.b) || p.b[p.i] != '"' {
				return nil, fmt.Errorf("expected key at %d", p.i)
			}
			k, err := p.str()
			if err != nil {
				return nil, err
			}
			if seen[k] {
				return nil, fmt.Errorf("duplicate key %q", k)
			}
			seen[k] = true
			p.ws()
			if p.i >= len(p.b) || p.b[p.i] != ':' {
				return nil, fmt.Errorf("expected ':' at %d", p.i)
			}
			p.i++
			p.ws()
			v, err := p.value(depth + 1)
			if err != nil {
				return nil, err
			}
			o.Keys = append(o.Keys, k)
			o.Vals = append(o.Vals, v)
			p.ws()
			if p.i >= len(p.b) {
				return nil, fmt.Errorf("unexpected end in object")
			}
			if p.b[p.i] == ',' {
				p.i++
				continue
			}
			if p.b[p.i] == '}' {
				p.i++
				return o, nil
			}
			return nil, fmt.Errorf("expected ',' or '}' at %d", p.i)
		}
	case c == '[':
		p.i++
		a := &J{K: Arr, A: []*J{}}
		p.ws()
		if p.i < len(p.b) && p.b[p.i] == ']' {
			p.i++
			return a, nil
		}
		for {
			p.ws()
			v, err := p.value(depth + 1)
			if err != nil {
				return nil, err
			}
			a.A = append(a.A, v)
			p.ws()
			if p.i >= len(p.b) {
				return nil, fmt.Errorf("unexpected end in array")
			}
			if p.b[p.i] == ',' {
				p.i++
				continue
			}
			if p.b[p.i] == ']' {
				p.i++
				return a, nil
			}
			return nil, fmt.Errorf("expected ',' or ']' at %d", p.i)
		}
	case c == '"':
		s, err := p.str()
		if err != nil {
			return nil, err
		}
		return &J{K: Str, S: s}, nil
	case c == 't':
		return p.lit("true", &J{K: Bool, B: true})
	case c == 'f':
		return p.lit("false", &J{K: Bool})
	case c == 'n':
		return p.lit("null", &J{K: Null})
	case c == '-' || (c >= '0' && c <= '9'):
		return p.num()
	}
	return nil, fmt.Errorf("unexpected byte %q at %d", p.b[p.i], p.i)
}

func (p *parser) lit(s string, v *J) (*J, error) {
	if strings.HasPrefix(string(p.b[p.i:]), s) {
		p.i += len(s)
		return v, nil
	}
	return nil, fmt.Errorf("bad literal at %d", p.i)
}

func (p *parser) num() (*J, error) {
	st := p.i
	if p.b[p.i] == '-' {
		p.i++
	}
	if p.i >= len(p.b) {
		return nil, fmt.Errorf("bad number")
	}
	if p.b[p.i] == '0' {
		p.i++
	} else if p.b[p.i] >= '1' && p.b[p.i] <= '9' {
		for p.i < len(p.b) && p.b[p.i] >= '0' && p.b[p.i] <= '9' {
			p.i++
		}
	} else {
		return nil, fmt.Errorf("bad number at %d", p.i)
	}
	if p.i < len(p.b) && p.b[p.i] == '.' {
		p.i++
		n := 0
		for p.i < len(p.b) && p.b[p.i] >= '0' && p.b[p.i] <= '9' {
			p.i++
			n++
		}
		if n == 0 {
			return nil, fmt.Errorf("bad fraction at %d", p.i)
		}
	}
	if p.i < len(p.b) && (p.b[p.i] == 'e' || p.b[p.i] == 'E') {
		p.i++
		if p.i < len(p.b) && (p.b[p.i] == '+' || p.b[p.i] == '-') {
			p.i++
		}
		n := 0
		for p.i < len(p.b) && p.b[p.i] >= '0' && p.b[p.i] <= '9' {
			p.i++
			n++
		}
		if n == 0 {
			return nil, fmt.Errorf("bad exponent at %d", p.i)
		}
	}
	return &J{K: Num, N: string(p.b[st:p.i])}, nil
}

func (p *parser) str() (string, error) {
	p.i++ // opening quote
	var sb strings.Builder
	for {
		if p.i >= len(p.b) {
			return "", fmt.Errorf("unterminated string")
		}
		c := p.b[p.i]
		switch {
		case c == '"':
			p.i++
			return sb.String(), nil
		case c < 0x20:
			return "", fmt.Errorf("raw control character 0x%02x in string at %d", c, p.i)
		case c == '\\':
			p.i++
			if p.i >= len(p.b) {
				return "", fmt.Errorf("bad escape")
			}
			switch e := p.b[p.i]; e {
			case '"', '\\', '/':
				sb.WriteByte(e)
			case 'b':
				sb.WriteByte('\b')
			case 'f':
				sb.WriteByte('\f')
			case 'n':
				sb.WriteByte('\n')
			case 'r':
				sb.WriteByte('\r')
			case 't':
				sb.WriteByte('\t')
			case 'u':
				if p.i+4 >= len(p.b) {
					return "", fmt.Errorf("bad \\u escape")
				}
				r, err := strconv.ParseUint(string(p.b[p.i+1:p.i+5]), 16, 32)
				if err != nil {
					return "", fmt.Errorf("bad \\u escape")
				}
				p.i += 4
				if r >= 0xd800 && r < 0xdc00 && p.i+6 < len(p.b) && p.b[p.i+1] == '\\' && p.b[p.i+2] == 'u' {
					r2, err := strconv.ParseUint(string(p.b[p.i+3:p.i+7]), 16, 32)
					if err == nil && r2 >= 0xdc00 && r2 < 0xe000 {
						r = 0x10000 + (r-0xd800)<<10 + (r2 - 0xdc00)
						p.i += 6
					}
				}
				sb.WriteRune(rune(r))
			default:
				return "", fmt.Errorf("bad escape \\%c", e)
			}
			p.i++
		default:
			sb.WriteByte(c)
			p.i++
		}
	}
}

// Canon renders the value compactly, preserving key order.
func (j *J) Canon() string {
	var sb strings.Builder
	j.canon(&sb)
	return sb.String()
}

func (j *J) canon(sb *strings.Builder) {
	if j == nil {
		sb.WriteString("<absent>")
		return
	}
	switch j.K {
	case Null:
		sb.WriteString("null")
	case Bool:
		if j.B {
			sb.WriteString("true")
		} else {
			sb.WriteString("false")
		}
	case Num:
		sb.WriteString(j.N)
	case Str:
		sb.WriteString(strconv.Quote(j.S))
	case Arr:
		sb.WriteByte('[')
		for i, e := range j.A {
			if i > 0 {
				sb.WriteByte(',')
			}
			e.canon(sb)
		}
		sb.WriteByte(']')
	case Obj:
		sb.WriteByte('{')
		for i, k := range j.Keys {
			if i > 0 {
				sb.WriteByte(',')
			}
			sb.WriteString(strconv.Quote(k))
			sb.WriteByte(':')
			j.Vals[i].canon(sb)
		}
		sb.WriteByte('}')
	}
}

// Get returns the member k of an object or nil.
func (j *J) Get(k string) *J {
	if j == nil || j.K != Obj {
		return nil
	}
	for i, kk := range j.Keys {
		if kk == k {
			return j.Vals[i]
		}
	}
	return nil
}

// Set sets/appends a member.
func (j *J) Set(k string, v *J) {
	for i, kk := range j.Keys {
		if kk == k {
			j.Vals[i] = v
			return
		}
	}
	j.Keys = append(j.Keys, k)
	j.Vals = append(j.Vals, v)
}

func NewObj() *J          { return &J{K: Obj} }
func NewArr() *J          { return &J{K: Arr, A: []*J{}} }
func NewStr(s string) *J  { return &J{K: Str, S: s} }
func NewNull() *J         { return &J{K: Null} }
func NewNum(n int64) *J   { return &J{K: Num, N: strconv.FormatInt(n, 10)} }
func NewBool(b bool) *J   { return &J{K: Bool, B: b} }
func (j *J) IsNull() bool { return j != nil && j.K == Null }

// CanonSorted renders the value with object keys sorted (order-insensitive comparison).
func (j *J) CanonSorted() string {
	var sb strings.Builder
	j.canonSorted(&sb)
	return sb.String()
}

func (j *J) canonSorted(sb *strings.Builder) {
	if j == nil {
		sb.WriteString("<absent>")
		return
	}
	switch j.K {
	case Arr:
		sb.WriteByte('[')
		for i, e := range j.A {
			if i > 0 {
				sb.WriteByte(',')
			}
			e.canonSorted(sb)
		}
		sb.WriteByte(']')
	case Obj:
		idx := make([]int, len(j.Keys))
		for i := range idx {
			idx[i] = i
		}
		for a := 1; a < len(idx); a++ {
			for b := a; b > 0 && j.Keys[idx[b]] < j.Keys[idx[b-1]]; b-- {
				idx[b], idx[b-1] = idx[b-1], idx[b]
			}
		}
		sb.WriteByte('{')
		for n, i := range idx {
			if n > 0 {
				sb.WriteByte(',')
			}
			sb.WriteString(strconv.Quote(j.Keys[i]))
			sb.WriteByte(':')
			j.Vals[i].canonSorted(sb)
		}
		sb.WriteByte('}')
	default:
		j.canon(sb)
	}
}

// Clone deep-copies the value.
func (j *J) Clone() *J {
	if j == nil {
		return nil
	}
	c := *j
	if j.A != nil {
		c.A = make([]*J, len(j.A))
		for i, e := range j.A {
			c.A[i] = e.Clone()
		}
	}
	if j.Keys != nil {
		c.Keys = append([]string(nil), j.Keys...)
		c.Vals = make([]*J, len(j.Vals))
		for i, e := range j.Vals {
			c.Vals[i] = e.Clone()
		}
	}
	return &c
}

// At resolves a response path such as users[0].best; nil when it does not resolve.
func (j *J) At(path string) *J {
	cur := j
	i := 0
	for i < len(path) && cur != nil {
		switch path[i] {
		case '.':
			i++
		case '[':
			e := strings.IndexByte(path[i:], ']')
			if e < 0 {
				return nil
			}
			n, err := strconv.Atoi(path[i+1 : i+e])
			if err != nil || cur.K != Arr || n < 0 || n >= len(cur.A) {
				return nil
			}
			cur = cur.A[n]
			i += e + 1
		default:
			e := strings.IndexAny(path[i:], ".[")
			if e < 0 {
				e = len(path) - i
			}
			cur = cur.Get(path[i : i+e])
			i += e
		}
	}
	return cur
}
