// Package wssim is the websocket-session simulation for C11: a real gorilla client and gqlgen's
// Websocket transport talk over a net.Pipe inside a synctest bubble; the scheduler interleaves
// client messages, server-side emissions, timer ticks, server writes and cancellations, and a
// per-connection monitor checks the subscription protocol.
package wssim

import (
	"bufio"
	"context"
	"encoding/json"
	"errors"
	"fmt"
	"math"
	"net"
	"net/http"
	"net/url"
	"reflect"
	"regexp"
	"runtime"
	"sort"
	"strconv"
	"strings"
	"sync"
	"sync/atomic"
	"testing/synctest"
	"time"

	"github.com/99designs/gqlgen/graphql"
	"github.com/99designs/gqlgen/graphql/handler"
	"github.com/99designs/gqlgen/graphql/handler/transport"
	"github.com/gorilla/websocket"
	"github.com/vektah/gqlparser/v2/ast"
	"github.com/vektah/gqlparser/v2/gqlerror"
	"github.com/vektah/gqlparser/v2/parser"

	"verifsim/core"
	"verifsim/execsim"
	"verifsim/ops"
	"verifsim/parsers"
	"verifsim/probereg"
	"verifsim/refexec"
	"verifsim/simws"
	"verifsim/uni"
)

type source struct {
	id       string
	ch       reflect.Value
	elem     reflect.Type
	gql      *ast.Type
	path     string
	ctx      context.Context
	sent     int
	done     []int64 // global seq at which the k-th send completed
	pending  bool
	closed   bool
	closedAt int64
	retract  chan struct{}
	lateErr  bool // its producer reported an error after the operation's context was cancelled
}

type opState struct {
	id        string
	kind      string
	startSeq  int64
	stopSeq   int64 // seq when the client's stop was handed to the sender (0 = never)
	stopSent  bool
	isStream  bool
	wantFrame bool // the server must answer this start (it was sent on an acknowledged connection)
	query     string
	opName    string
	vars      map[string]any
	echo      string // value of the operation's own $b variable, which its result must carry
	// wire is the id on the wire. Ids only have to be unique among ACTIVE operations: a client
	// may use the id of a terminated operation again.
	wire    string
	termSeq int64 // seq of the settled point that saw this operation terminated (0 = not yet)
	reused  bool  // a later operation took over the wire id
}

type cframe struct {
	Seq     int64
	Type    string
	ID      string
	Payload json.RawMessage
}

type sessionKey struct{}

// failsOnFirstEvent: operation kinds whose first event cannot be serialised (the operation ends
// with an error frame, the transport's panic is recovered once)
func failsOnFirstEvent(kind string) bool {
	return kind == "sub-events-marshal-panic" || kind == "sub-unencodable"
}

var xopRe = regexp.MustCompile(`"xop":"([^"]*)"`)

var lateErrRe = regexp.MustCompile(`X:late-error-of-op-(\d+)`)

var opNameRe = regexp.MustCompile(`Op(\d+)`)

// gate is a handler extension that rejects operations by a marker in the query text: "RejP" in
// MutateOperationParameters, "RejC" in MutateOperationContext (C03 over the websocket transport).
type gate struct{}

func (gate) ExtensionName() string                          { return "SimGate" }
func (gate) Validate(schema graphql.ExecutableSchema) error { return nil }
func (gate) MutateOperationParameters(ctx context.Context, p *graphql.RawParams) *gqlerror.Error {
	if strings.Contains(p.Query, "RejP") {
		return gqlerror.Errorf("X:rejected by parameter gate")
	}
	return nil
}
func (gate) MutateOperationContext(ctx context.Context, rc *graphql.OperationContext) *gqlerror.Error {
	if strings.Contains(rc.RawQuery, "RejC") {
		return gqlerror.Errorf("X:rejected by context gate")
	}
	return nil
}

var hookOnce sync.Once
var gnamesCur atomic.Value // *sync.Map of the running session

func Run(rc *core.RunCtx) {
	t := rc.Tape
	w := rc.W
	// (v10 is generated without panic handlers: sessions, which inject panics, do not use it)
	var usable []*uni.Variant
	for i := range probereg.Core {
		if probereg.Core[i].Name != "v10" {
			usable = append(usable, &probereg.Core[i])
		}
	}
	v := usable[t.Choose(len(usable), "variant")]
	plan := &refexec.Plan{Seed: uint64(t.Choose(1<<16, "planseed")), MaxList: 2}
	nestedFaults := t.Choose(4, "nested-faults")
	switch nestedFaults {
	case 1:
		plan.ErrPM = 150
	case 2:
		plan.NullPM = 200
	case 3:
		plan.PanicPM = 120 // nested resolvers panic on some events: recovered at the field
	}
	u := uni.New(w, v, plan)
	v.SetBlobHook(execsim.BlobHook)
	u.Park = t.Bool(1, 3, "park-resolvers")
	u.Custom = map[string]func(ctx context.Context, args []reflect.Value) (any, error){
		// echo returns its argument, so that an operation's variables are visible in its result
		"Query.echo": func(ctx context.Context, args []reflect.Value) (any, error) {
			b := args[1]
			if b.Kind() == reflect.Ptr {
				return b.Interface(), nil
			}
			p := reflect.New(b.Type())
			p.Elem().Set(b)
			return p.Interface(), nil
		},
	}
	// serialisation-time panic of a subscription event: the custom scalar of events.blob panics
	// in MarshalGQL (only operations that select it are affected)
	// (inside a subscription event the field path does not include the root field)
	plan.Faults = map[string]refexec.Kind{"events.blob": refexec.KMarshalPanic, "blob": refexec.KMarshalPanic}
	// which oracles apply: C11 = protocol monitor; C04 = containment of failures; C05 = nothing
	// left running
	protocol := rc.Property != "C05" && rc.Property != "C07" && rc.Property != "C01"
	// C07 = every result carries the content of its own operation (no leak between operations
	// sharing the connection); also part of C11's "receives its results"
	content := rc.Property == "C07" || rc.Property == "C11" || rc.Property == "C03" || rc.Property == "C01"

	transportWS := t.Choose(2, "proto") == 1
	proto := "graphql-ws"
	if transportWS {
		proto = "graphql-transport-ws"
	}
	initMode := t.Choose(6, "initmode") // 0 none 1 accept 2 accept+payload 3 reject 4 stall 5 accept with a context of its own
	var seq atomic.Int64
	var initAccepted atomic.Bool
	var closeCalls atomic.Int32
	var panicsRecovered atomic.Int32
	ws := transport.Websocket{
		InitTimeout: []time.Duration{0, 5 * time.Second}[t.Choose(2, "inittimeout")],
		CloseFunc:   func(ctx context.Context, code int) { closeCalls.Add(1); w.Logf("closefunc", "", "%d", code) },
		ErrorFunc:   func(ctx context.Context, err error) {},
	}
	if !transportWS {
		ws.KeepAlivePingInterval = []time.Duration{0, 10 * time.Second}[t.Choose(2, "ka")]
	} else {
		ws.PongOnlyInterval = []time.Duration{0, 10 * time.Second}[t.Choose(2, "pongonly")]
		ws.PingPongInterval = []time.Duration{0, 10 * time.Second}[t.Choose(2, "pingpong")]
		ws.MissingPongOk = t.Bool(1, 2, "missingpongok")
	}
	if initMode > 0 {
		ws.InitFunc = func(ctx context.Context, p transport.InitPayload) (context.Context, *transport.InitPayload, error) {
			w.Logf("initfunc", "", "")
			if initMode == 4 {
				if _, killed := w.Park("init", "conn", nil).(core.Kill); killed {
					return ctx, nil, errors.New("killed")
				}
			}
			if initMode == 3 {
				return ctx, nil, errors.New("X:init rejected")
			}
			initAccepted.Store(true)
			if initMode == 2 {
				return ctx, &transport.InitPayload{"ack": "yes"}, nil
			}
			if initMode == 5 {
				// a "session" context that does not descend from the one passed in (legal per the
				// InitFunc signature): only gqlgen's own close can end the operations
				return context.WithValue(context.Background(), sessionKey{}, "s"), nil, nil
			}
			return ctx, nil, nil
		}
	}
	srv := handler.New(u.ES)
	srv.AddTransport(ws)
	srv.Use(gate{})
	var unencDone sync.Map // operation text -> its first payload has been spoilt
	srv.AroundResponses(func(ctx context.Context, next graphql.ResponseHandler) *graphql.Response {
		r := next(ctx)
		if r != nil && graphql.HasOperationContext(ctx) {
			if q := graphql.GetOperationContext(ctx).RawQuery; strings.Contains(q, "_Unenc") {
				if _, done := unencDone.LoadOrStore(q, true); !done {
					// a value encoding/json refuses: this one payload cannot be sent
					r.Extensions = map[string]any{"bad": math.NaN()}
				}
			}
			// what the operation context says about request headers is echoed, so that a header
			// that wandered from one operation to another shows
			if h := graphql.GetOperationContext(ctx).Headers.Get("X-Op"); h != "" {
				if r.Extensions == nil {
					r.Extensions = map[string]any{}
				}
				r.Extensions["xop"] = h
			}
		}
		return r
	})
	srv.SetRecoverFunc(func(ctx context.Context, err any) error {
		panicsRecovered.Add(1)
		return fmt.Errorf("recovered:%v", err)
	})

	var mu sync.Mutex
	sources := map[string]*source{}
	var violation string
	var violationSite string
	var vmu sync.Mutex // separate from mu: flag is called with mu held
	flag := func(site, format string, args ...any) {
		vmu.Lock()
		if violation == "" {
			violation, violationSite = fmt.Sprintf(format, args...), site
		}
		vmu.Unlock()
	}
	gnames := &sync.Map{} // goroutine id -> operation name, for subscribe goroutines
	gnamesCur.Store(gnames)
	u.OnCall = func(ctx context.Context, kind, path string) {
		if role, gid := core.GoroutineRoleID(); role == "subscribe" {
			gnames.Store(gid, u.KeyPrefix(ctx))
		}
		if oc := graphql.GetOperationContext(ctx); oc != nil && (strings.Contains(oc.RawQuery, "RejP") || strings.Contains(oc.RawQuery, "RejC")) {
			flag("executed-despite-rejection", "a %s call at %q ran for an operation that an extension rejected (%s)", kind, path, clip(oc.RawQuery))
		}
		if !initAccepted.Load() {
			flag("executed-before-init", "a %s call at %q ran before the connection was initialised", kind, path)
		}
	}
	u.KeyPrefix = func(ctx context.Context) string {
		if oc := graphql.GetOperationContext(ctx); oc != nil {
			if m := opNameRe.FindStringSubmatch(oc.RawQuery); m != nil {
				return "op" + m[1] + ":"
			}
		}
		return ""
	}
	u.Stream = func(ctx context.Context, path string, chanType reflect.Type, fd *ast.FieldDefinition) (reflect.Value, error) {
		id := "?"
		if oc := graphql.GetOperationContext(ctx); oc != nil {
			if m := opNameRe.FindStringSubmatch(oc.RawQuery); m != nil {
				id = m[1]
			}
		}
		ch := reflect.MakeChan(reflect.ChanOf(reflect.BothDir, chanType.Elem()), 0)
		mu.Lock()
		sources[id] = &source{id: id, ch: ch, elem: chanType.Elem(), gql: fd.Type, path: path, ctx: ctx, retract: make(chan struct{})}
		mu.Unlock()
		return ch.Convert(chanType), nil
	}

	// lock grants: every acquisition of a transport mutex is a scheduler decision, so that which
	// goroutine wins a contended wsConnection.mu is on the tape, not up to the Go scheduler
	core.SetCurrent(w)
	hookOnce.Do(func() {
		transport.SimLockHook = func(free func() bool) {
			role, gid := core.GoroutineRoleID()
			if n, ok := gnamesCur.Load().(*sync.Map).Load(gid); ok && role == "subscribe" {
				role += ":" + n.(string)
			}
			core.ParkLock(role, free)
		}
	})

	// network
	sc, cc := net.Pipe()
	conn := &simws.Conn{Conn: sc, W: w, Name: "srv", Seq: &seq}
	conn.OnAttempt = func(f simws.Frame) {
		if f.Type == "connection_ack" && initMode == 0 {
			initAccepted.Store(true)
		}
	}
	srvCtx, srvCancel := context.WithCancel(context.Background())
	defer srvCancel()
	withReason := t.Bool(1, 2, "close-reason")
	if withReason {
		srvCtx = transport.AppendCloseReason(srvCtx, "server is shutting down")
	}
	serverDone := make(chan struct{})
	go func() {
		defer close(serverDone)
		br := bufio.NewReader(conn)
		req, err := http.ReadRequest(br)
		if err != nil {
			return
		}
		req = req.WithContext(srvCtx)
		hw := &simws.HijackWriter{C: conn, BRW: bufio.NewReadWriter(br, bufio.NewWriter(conn))}
		srv.ServeHTTP(hw, req)
	}()
	uu, _ := url.Parse("ws://sim/query")
	client, _, err := websocket.NewClient(cc, uu, http.Header{"Sec-WebSocket-Protocol": []string{proto}}, 4096, 4096)
	if err != nil {
		rc.Fail("handshake", "harness", "websocket handshake failed: %v", err)
		return
	}
	conn.Decode.Store(true)
	conn.Park = t.Bool(1, 3, "park-writes")

	var cframes []cframe
	var clientClosed atomic.Bool // the client's reader ended (server closed, or we closed)
	var closeCode atomic.Int32
	go func() {
		for {
			mt, b, err := client.ReadMessage()
			if err != nil {
				var ce *websocket.CloseError
				if errors.As(err, &ce) {
					closeCode.Store(int32(ce.Code))
				}
				clientClosed.Store(true)
				return
			}
			if mt != websocket.TextMessage {
				continue
			}
			var m struct {
				Type    string          `json:"type"`
				ID      string          `json:"id"`
				Payload json.RawMessage `json:"payload"`
			}
			json.Unmarshal(b, &m)
			mu.Lock()
			cframes = append(cframes, cframe{Seq: seq.Add(1), Type: m.Type, ID: m.ID, Payload: m.Payload})
			mu.Unlock()
		}
	}()
	sendQ := make(chan func(), 64)
	var sendsOutstanding atomic.Int32
	go func() {
		for f := range sendQ {
			f()
			sendsOutstanding.Add(-1)
		}
	}()
	defer close(sendQ)
	send := func(desc string, v any) {
		b, _ := json.Marshal(v)
		w.Logf("client-send", desc, "%s", b)
		sendsOutstanding.Add(1)
		sendQ <- func() { client.WriteMessage(websocket.TextMessage, b) }
	}
	sendRaw := func(desc string, mt int, b []byte) {
		w.Logf("client-send", desc, "")
		sendsOutstanding.Add(1)
		sendQ <- func() { client.WriteMessage(mt, b) }
	}

	typeStart, typeStop := "start", "stop"
	if transportWS {
		typeStart, typeStop = "subscribe", "complete"
	}
	opsByID := map[string]*opState{}
	var opOrder []string
	nextID := 1
	wireOps := map[string][]*opState{}
	// opOf attributes a server frame to the operation that held its wire id when it was written
	opOf := func(f simws.Frame) *opState {
		var best *opState
		for _, o := range wireOps[f.ID] {
			if o.startSeq < f.Seq && (best == nil || o.startSeq > best.startSeq) {
				best = o
			}
		}
		return best
	}
	initSent := false
	clientGone := false // client sent close/terminate or aborted
	cancelled := false
	maxEvents := 12
	if rc.Tier == "thorough" {
		maxEvents = 30
	}
	events := 0
	var evSig []string
	// at most one tick of the 10 s tickers per advance (see streamsim)
	clockMenu := []time.Duration{10 * time.Second, 10*time.Second - time.Microsecond, 5 * time.Second, 10*time.Second + time.Microsecond, time.Second}
	finished := false
	idle := 0
	var cutoff int64 // seq of the first event after which delivery is no longer owed
	cut := func() {
		if cutoff == 0 {
			cutoff = seq.Add(1)
		}
	}
	dataType := "data"
	if transportWS {
		dataType = "next"
	}
	settles := 0
	for step := 0; step < 800; step++ {
		synctest.Wait()
		w.NextStep()
		select {
		case <-serverDone:
			finished = true
		default:
		}
		if finished {
			break
		}
		type action struct {
			kind string
			it   *core.Item
			src  *source
			op   *opState
		}
		var acts []action
		for _, it := range w.Parked() {
			if it.Kind == "lock" && !it.Info.(func() bool)() {
				continue // the mutex is held: no grant
			}
			acts = append(acts, action{kind: "release", it: it})
		}
		mu.Lock()
		var srcIDs []string
		for id := range sources {
			srcIDs = append(srcIDs, id)
		}
		sort.Strings(srcIDs)
		// withdraw emissions the consumer did not take within one step (see streamsim)
		withdrew := false
		for _, id := range srcIDs {
			if s := sources[id]; s.pending {
				close(s.retract)
				s.retract = make(chan struct{})
				withdrew = true
			}
		}
		if withdrew {
			mu.Unlock()
			synctest.Wait()
			continue
		}
		for _, id := range srcIDs {
			s := sources[id]
			if !s.closed && !s.pending && s.ctx.Err() == nil {
				acts = append(acts, action{kind: "emit", src: s}, action{kind: "end", src: s}, action{kind: "end-error", src: s})
			}
			// the producer of an operation whose context is already cancelled (stopped by the
			// client, say) reports its failure a little later, as AddSubscriptionError's own
			// documentation shows: that error belongs to nobody else
			if !s.closed && !s.pending && s.ctx.Err() != nil && !s.lateErr {
				acts = append(acts, action{kind: "late-error", src: s})
			}
		}
		mu.Unlock()
		workPending := len(acts) > 0 || sendsOutstanding.Load() > 0
		if !clientGone && events < maxEvents {
			if !initSent {
				acts = append(acts, action{kind: "c-init"})
			}
			acts = append(acts, action{kind: "c-start"})
			for _, id := range opOrder {
				if o := opsByID[id]; !o.stopSent && !o.reused {
					acts = append(acts, action{kind: "c-stop", op: o})
				}
			}
			acts = append(acts, action{kind: "c-misc"})
		}
		if !clientGone {
			acts = append(acts, action{kind: "c-close"})
		}
		if !cancelled {
			acts = append(acts, action{kind: "srv-cancel"})
		}
		tickerBusy := false
		for _, it := range w.Parked() {
			if r, ok := it.Info.(string); ok && core.IsTickerRole(r) {
				tickerBusy = true
			}
			if it.Kind == "lock" && core.IsTickerRole(it.Key) {
				tickerBusy = true
			}
		}
		if !tickerBusy {
			acts = append(acts, action{kind: "sleep"})
		}
		if cutoff == 0 {
			acts = append(acts, action{kind: "settle"})
		}
		if events >= maxEvents && !clientGone {
			// script exhausted: make ending likely
			acts = append(acts, action{kind: "c-close"}, action{kind: "c-close"}, action{kind: "c-close"})
		}
		// weighted choice (0 on the tape = the first action)
		weight := func(a action) int {
			switch a.kind {
			case "release":
				return 8
			case "emit":
				return 6
			case "end", "end-error", "late-error":
				return 1
			case "c-init":
				return 30
			case "c-start":
				if !initSent {
					return 1
				}
				return 8
			case "c-stop":
				return 2
			case "c-misc":
				return 1
			case "settle":
				return 4
			case "c-close", "srv-cancel":
				if events < 5 {
					return 0
				}
				return 1
			}
			return 2
		}
		total := 0
		for _, x := range acts {
			total += weight(x)
		}
		pick := t.Choose(total, "act")
		var a action
		for _, x := range acts {
			pick -= weight(x)
			if pick < 0 {
				a = x
				break
			}
		}
		if !workPending && (a.kind == "sleep") {
			idle++
		} else {
			idle = 0
		}
		switch a.kind {
		case "release":
			if a.it.Kind == "ws-write" {
				dec := simws.WriteDecision{}
				if t.Bool(1, 30, "fail-write") {
					dec.Fail = true
					cut()
					w.Count("server_write_failures")
				}
				w.Release(a.it, dec)
			} else {
				w.Release(a.it, nil)
			}
		case "emit":
			s := a.src
			s.pending = true
			s.sent++
			n := s.sent
			val := u.Build(s.elem, s.gql, fmt.Sprintf("%s@%d", s.path, n))
			if s.elem.Kind() == reflect.Int {
				val = reflect.ValueOf(n)
			}
			w.Logf("emit", s.id, "%d", n)
			retract := s.retract
			go func() {
				chosen, _, _ := reflect.Select([]reflect.SelectCase{
					{Dir: reflect.SelectSend, Chan: s.ch, Send: val},
					{Dir: reflect.SelectRecv, Chan: reflect.ValueOf(retract)},
				})
				mu.Lock()
				if chosen == 0 {
					s.done = append(s.done, seq.Add(1))
				} else {
					s.sent--
				}
				s.pending = false
				mu.Unlock()
			}()
			w.Count("emissions")
		case "late-error":
			s := a.src
			s.lateErr = true
			transport.AddSubscriptionError(s.ctx, &gqlerror.Error{Message: "X:late-error-of-op-" + s.id})
			w.Logf("late-error", s.id, "")
			w.Count("late_subscription_errors")
		case "end", "end-error":
			s := a.src
			if a.kind == "end-error" {
				transport.AddSubscriptionError(s.ctx, &gqlerror.Error{Message: "X:source failed"})
				w.Count("source_errors")
			}
			s.closed = true
			s.closedAt = seq.Add(1)
			s.ch.Close()
			w.Logf(a.kind, s.id, "")
		case "c-init":
			initSent = true
			events++
			var payload any
			switch t.Choose(3, "initpayload") {
			case 1:
				payload = map[string]any{"token": "abc"}
			case 2:
				payload = map[string]any{}
			}
			m := map[string]any{"type": "connection_init"}
			if payload != nil {
				m["payload"] = payload
			}
			send("init", m)
			evSig = append(evSig, "init")
		case "c-start":
			if !initSent {
				cut() // start before init is a protocol error: the server closes
			}
			events++
			id := strconv.Itoa(nextID)
			nextID++
			o := &opState{id: id, startSeq: seq.Add(1), wantFrame: initSent, wire: id}
			// now and then take the id of an operation that a settled point has seen terminated
			// (and whose stop, if any, had been consumed by then)
			var free []*opState
			mu.Lock()
			for _, oid := range opOrder {
				p := opsByID[oid]
				if p.reused {
					continue
				}
				if p.termSeq > 0 && (!p.stopSent || p.stopSeq < p.termSeq) {
					free = append(free, p)
					continue
				}
				// ... or whose complete frame the client has already received, if the client never
				// sent a stop for it (a stop still on its way would hit the new operation)
				if !p.stopSent {
					for _, cf := range cframes {
						if cf.Type == "complete" && cf.ID == p.wire && cf.Seq > p.startSeq {
							free = append(free, p)
							w.Count("ids_free_right_after_complete")
							break
						}
					}
				}
			}
			mu.Unlock()
			if len(free) > 0 && t.Bool(1, 2, "reuse-id") {
				p := free[t.Choose(len(free), "reuse-which")]
				p.reused = true
				o.wire = p.wire
				w.Count("ids_reused")
			}
			wireOps[o.wire] = append(wireOps[o.wire], o)
			var query string
			var payloadExtra map[string]any
			switch t.Choose(17, "opkind") {
			case 16:
				// a "headers" member in the operation's payload (RawParams has one): whatever the
				// server makes of it, it concerns this operation only
				o.kind = "query-hdr"
				o.echo = "h" + id
				o.vars = map[string]any{"b": o.echo}
				query = fmt.Sprintf("query Op%s($b: Blob!) { echo(b: $b) }", id)
				payloadExtra = map[string]any{"variables": o.vars, "headers": map[string]any{"X-Op": []any{"h" + id}}}
			case 15:
				// the first payload of this subscription cannot be encoded by the transport
				o.kind, o.isStream = "sub-unencodable", true
				query = fmt.Sprintf("subscription Op%s_Unenc { ticks(n: 3) }", id)
			case 13:
				o.kind = "rejected-by-parameter-gate"
				query = fmt.Sprintf("query Op%s_RejP { hello me { id } }", id)
			case 14:
				o.kind = "rejected-by-context-gate"
				query = fmt.Sprintf("query Op%s_RejC { hello me { id } }", id)
			case 10, 11:
				// the operation's own variables show in its result
				o.kind = "query-vars"
				o.echo = "w" + id
				o.vars = map[string]any{"b": o.echo, "t": nextID%2 == 0}
				query = fmt.Sprintf("query Op%s($b: Blob!, $t: Boolean!) { echo(b: $b) maybe @include(if: $t) }", id)
				payloadExtra = map[string]any{"variables": o.vars}
			case 12:
				// several operations in one document, selected by operationName
				o.kind = "query-named"
				o.echo = "n" + id
				o.vars = map[string]any{"b": o.echo}
				o.opName = "B_Op" + id
				query = fmt.Sprintf("query A_Op%s { maybe } query B_Op%s($b: Blob!) { echo(b: $b) }", id, id)
				payloadExtra = map[string]any{"variables": o.vars, "operationName": o.opName}
			case 8:
				o.kind, o.isStream = "sub-opdirective-panic", true
				query = fmt.Sprintf("subscription Op%s @opguard(mode:\"panic\") { ticks(n: 1) }", id)
			case 9:
				o.kind, o.isStream = "sub-opdirective-error", true
				query = fmt.Sprintf("subscription Op%s @opguard(mode:\"error\") { ticks(n: 1) }", id)
			case 7:
				o.kind, o.isStream = "sub-events-marshal-panic", true
				query = fmt.Sprintf("subscription Op%s { events { id blob } }", id)
			case 0, 1:
				o.kind, o.isStream = "sub-ticks", true
				query = fmt.Sprintf("subscription Op%s { ticks(n: 3) }", id)
			case 2:
				o.kind, o.isStream = "sub-events", true
				query = fmt.Sprintf("subscription Op%s { events { id title author { name } } }", id)
			case 3:
				o.kind = "query"
				query = fmt.Sprintf("query Op%s { hello me { id name } }", id)
			case 4:
				o.kind = "mutation"
				query = fmt.Sprintf("mutation Op%s { inc(by: 1) }", id)
			case 5:
				o.kind = "invalid-doc"
				query = fmt.Sprintf("query Op%s { nope }", id)
			default:
				o.kind = "unparsable"
				query = "{{{"
			}
			opsByID[id] = o
			opOrder = append(opOrder, id)
			o.query = query
			pl := map[string]any{"query": query}
			for k, v := range payloadExtra {
				pl[k] = v
			}
			send("start "+id+" "+o.kind, map[string]any{"type": typeStart, "id": o.wire, "payload": pl})
			evSig = append(evSig, "start:"+o.kind)
		case "c-stop":
			events++
			a.op.stopSent = true
			a.op.stopSeq = seq.Add(1)
			send("stop "+a.op.id, map[string]any{"type": typeStop, "id": a.op.wire})
			evSig = append(evSig, "stop")
		case "c-misc":
			events++
			switch k := t.Choose(6, "misc"); k {
			case 0:
				if transportWS {
					send("ping", map[string]any{"type": "ping"})
				} else {
					send("stop-unknown", map[string]any{"type": "stop", "id": "nope"})
				}
				evSig = append(evSig, "ping")
			case 1:
				if transportWS {
					send("pong", map[string]any{"type": "pong"})
				} else {
					send("stop-unknown", map[string]any{"type": "stop", "id": "zzz"})
				}
				evSig = append(evSig, "pong")
			case 2:
				cut()
				sendRaw("invalid-json", websocket.TextMessage, []byte("{not json"))
				evSig = append(evSig, "invalid-json")
			case 3:
				cut()
				send("unknown-type", map[string]any{"type": "bogus"})
				evSig = append(evSig, "unknown-type")
			case 4:
				cut()
				send("second-init", map[string]any{"type": "connection_init"})
				evSig = append(evSig, "second-init")
			default:
				cut()
				sendRaw("binary", websocket.BinaryMessage, []byte{1, 2, 3})
				evSig = append(evSig, "binary")
			}
		case "c-close":
			cut()
			clientGone = true
			switch t.Choose(3, "closekind") {
			case 0:
				if !transportWS {
					send("terminate", map[string]any{"type": "connection_terminate"})
				} else {
					sendRaw("close-frame", websocket.CloseMessage, websocket.FormatCloseMessage(1000, "bye"))
				}
				evSig = append(evSig, "terminate")
			case 1:
				sendRaw("close-frame", websocket.CloseMessage, websocket.FormatCloseMessage(1000, "bye"))
				evSig = append(evSig, "close-frame")
			default:
				w.Logf("client-abort", "", "")
				cc.Close()
				evSig = append(evSig, "abort")
			}
			seq.Add(1)
		case "srv-cancel":
			cut()
			cancelled = true
			w.Logf("server-cancel", "", "reason=%v", withReason)
			srvCancel()
			evSig = append(evSig, "server-cancel")
		case "settle":
			// flush: release everything (no failures) until the session is quiescent, then check
			// what is owed at this point: every completed emission has its data frame, every
			// stopped or ended operation has terminated and its context is cancelled
			ok := true
			for i := 0; i < 2000 && ok; i++ {
				synctest.Wait()
				if w.NumParked() == 0 && sendsOutstanding.Load() == 0 {
					break
				}
				w.NextStep()
				released := w.ReleaseNext(func(it *core.Item) any {
					if it.Kind == "ws-write" {
						return simws.WriteDecision{}
					}
					return nil
				})
				if !released {
					// the sender is blocked although the server is quiescent (its reader has
					// stopped reading), or only lock requests on a held mutex remain: no
					// settled point can be reached
					ok = false
				}
			}
			synctest.Wait()
			select {
			case <-serverDone:
				ok = false
			default:
			}
			if ok && cutoff == 0 && initMode != 3 {
				settles++
				per := map[string][]simws.Frame{}
				for _, f := range conn.Frames() {
					if o := opOf(f); f.ID != "" && o != nil {
						per[o.id] = append(per[o.id], f)
					}
				}
				mu.Lock()
				for _, id := range opOrder {
					o := opsByID[id]
					nd, term := 0, false
					for _, f := range per[id] {
						switch f.Type {
						case dataType:
							nd++
						case "complete", "error":
							term = true
						}
					}
					if term && o.termSeq == 0 {
						o.termSeq = seq.Add(1)
					}
					src := sources[id]
					if o.isStream && src != nil && !src.pending {
						if failsOnFirstEvent(o.kind) {
							if len(src.done) >= 1 && !term {
								flag("panic-not-contained", "operation %s: serialising its event panicked but the operation got no error frame at a settled point", id)
							}
						} else if !o.stopSent && nd != len(src.done) {
							flag("result-lost", "operation %s: %d emissions were received by the server, %d data frames written at a settled point", id, len(src.done), nd)
						}
						if (o.stopSent || src.closed) && !term {
							flag("operation-not-terminated", "operation %s was stopped/ended but has no complete or error frame at a settled point", id)
						}
						if o.stopSent && src.ctx.Err() == nil {
							flag("operation-context-not-cancelled", "operation %s was stopped by the client but its context is still live at a settled point", id)
						}
					}
					if (!o.isStream || strings.HasPrefix(o.kind, "sub-opdirective")) && o.wantFrame && !term {
						flag("operation-not-terminated", "operation %s (%s) has no complete or error frame at a settled point", id, o.kind)
					}
				}
				mu.Unlock()
			}
		case "sleep":
			d := clockMenu[t.Choose(len(clockMenu), "sleep-d")]
			// while a ticker goroutine is away from its select statement (parked by the scheduler,
			// or blocked below it) the clock stays short of its next tick: a tick that queued up
			// behind the goroutine would later tie with its stop signal in a select
			tickers := ws.KeepAlivePingInterval > 0 || ws.PongOnlyInterval > 0 || ws.PingPongInterval > 0
			if tickers {
				for _, role := range core.BusyTickerRoles() {
					if rem := w.UntilNextTick(role, 10*time.Second).Truncate(time.Microsecond); rem < d {
						d = rem
					}
				}
			}
			slept := core.SleepChunked(d, 10*time.Second, synctest.Wait, func() bool {
				return tickers && len(core.BusyTickerRoles()) > 0
			})
			w.Logf("sleep", "", "%s", slept)
			w.Count("clock_advances")
		}
		if idle > 40 {
			// the session only sleeps: end it
			clientGone = true
			cc.Close()
		}
	}
	desc := func() string {
		var sb strings.Builder
		fmt.Fprintf(&sb, "proto=%s initMode=%d initTimeout=%s ka=%s pongOnly=%s pingPong=%s missingPongOk=%v parkWrites=%v parkResolvers=%v events=%v\nserver frames:", proto, initMode, ws.InitTimeout, ws.KeepAlivePingInterval, ws.PongOnlyInterval, ws.PingPongInterval, ws.MissingPongOk, conn.Park, u.Park, evSig)
		for _, f := range conn.Frames() {
			if f.Opcode == 1 {
				fmt.Fprintf(&sb, "\n  #%d %s id=%q %s", f.Seq, f.Type, f.ID, clip(string(f.Payload)))
			} else {
				fmt.Fprintf(&sb, "\n  #%d opcode=%d %q", f.Seq, f.Opcode, clip(f.Raw))
			}
		}
		return sb.String()
	}
	if !finished {
		site, dump := core.StuckSite()
		rc.Fail("stuck", site, "session did not end within the step budget\n%s\n%s", desc(), dump)
		return
	}
	// end of life: everything still parked returns, the client side is closed
	srvCancel()
	cc.Close()
	for i := 0; i < 5000; i++ {
		synctest.Wait()
		if w.NumParked() == 0 {
			break
		}
		w.NextStep()
		if !w.ReleaseNext(func(it *core.Item) any {
			if it.Kind == "ws-write" {
				return simws.WriteDecision{Fail: true}
			}
			return nil
		}) {
			break
		}
	}
	synctest.Wait()

	// nothing may be left running, and every operation context must be cancelled (C05 and C11)
	leaks := core.Leaks()
	if len(leaks) > 0 {
		rc.Fail("goroutine-left-behind", leaks[0].TopSUTFrame(), "after the connection ended\n%s\n%s", leaks[0].Raw, desc())
		return
	}
	mu.Lock()
	for id, s := range sources {
		if s.ctx.Err() == nil {
			mu.Unlock()
			rc.Fail("operation-context-not-cancelled", "op", "operation %s: its context is still live after the connection ended\n%s", id, desc())
			return
		}
	}
	mu.Unlock()
	if content {
		// every result frame of a query/mutation carries the content of its own operation: the
		// reference result of that operation alone under the same plan, and its own variables
		env := u.Env()
		checked := 0
		for _, f := range conn.Frames() {
			if f.Opcode != 1 || f.ID == "" || f.Type != dataType {
				continue
			}
			o := opOf(f)
			if o == nil {
				continue
			}
			if xo := xopRe.FindStringSubmatch(string(f.Payload)); xo != nil && xo[1] != "h"+o.id {
				rc.Fail("result-not-its-own", "headers", "operation %s (%s) was executed with the X-Op header %q that another operation's payload carried\n%s", o.id, o.kind, xo[1], desc())
				return
			}
			switch o.kind {
			case "query", "mutation", "query-vars", "query-named", "query-hdr":
			case "sub-events":
				// the k-th event: data and errors of its payload equal the reference evaluation of
				// the subscription's selection on that event (paths inside an event do not carry
				// the root field in gqlgen)
				k := valueOf(f.Payload)
				if k == 0 {
					continue
				}
				p := execsim.ParseBody(string(f.Payload))
				doc, perr := parser.ParseQuery(&ast.Source{Input: o.query})
				if p.JSONErr != "" || perr != nil || len(ops.Validate(u.Schema, doc)) > 0 {
					rc.Fail("invalid-json", "event-frame", "operation %s: %s %s\n%s", o.id, p.JSONErr, clip(string(f.Payload)), desc())
					return
				}
				root := doc.Operations[0].SelectionSet[0].(*ast.Field)
				ref := refexec.ExecuteSelection(env, doc, root.SelectionSet, "Post", fmt.Sprintf("events@%d", k), "", nil)
				want := parsers.NewObj()
				want.Set("events", ref.Data)
				if p.Data == nil || p.Data.Canon() != want.Canon() {
					rc.Fail("result-not-its-own", "event", "operation %s event %d: expected data %s\ngot %s\n%s", o.id, k, want.Canon(), clip(string(f.Payload)), desc())
					return
				}
				if d := execsim.CompareErrs(ref.Errors, p.Errors); d != "" {
					rc.Fail("result-not-its-own", "event-errors", "operation %s event %d: %s\npayload %s\n%s", o.id, k, d, clip(string(f.Payload)), desc())
					return
				}
				checked++
				continue
			case "rejected-by-parameter-gate", "rejected-by-context-gate":
				// answered with errors only
				p := execsim.ParseBody(string(f.Payload))
				if p.JSONErr != "" || (p.Data != nil && !p.Data.IsNull()) || len(p.Errors) == 0 {
					rc.Fail("rejected-request-has-data", "websocket", "operation %s (%s) was answered with %s\n%s", o.id, o.kind, clip(string(f.Payload)), desc())
					return
				}
				continue
			default:
				continue
			}
			p := execsim.ParseBody(string(f.Payload))
			if p.JSONErr != "" {
				rc.Fail("invalid-json", "result-frame", "operation %s (%s): %s: %s\n%s", o.id, o.kind, p.JSONErr, clip(string(f.Payload)), desc())
				return
			}
			switch o.kind {
			case "query", "mutation":
				doc, perr := parser.ParseQuery(&ast.Source{Input: o.query})
				if perr != nil || len(ops.Validate(u.Schema, doc)) > 0 {
					rc.Fail("harness", "content-oracle", "operation %q does not validate", o.query)
					return
				}
				ref := refexec.Execute(env, doc, doc.Operations[0], nil)
				if p.Data == nil || p.Data.Canon() != ref.Data.Canon() {
					got := "<none>"
					if p.Data != nil {
						got = p.Data.Canon()
					}
					rc.Fail("result-not-its-own", o.kind, "operation %s %q: data differs from the result of that operation alone\nexpected %s\ngot      %s\n%s", o.id, o.query, ref.Data.Canon(), got, desc())
					return
				}
				if d := execsim.CompareErrs(ref.Errors, p.Errors); d != "" {
					rc.Fail("result-not-its-own", o.kind+"-errors", "operation %s %q: %s\n%s", o.id, o.query, d, desc())
					return
				}
			default:
				var e, h *parsers.J
				if p.Data != nil && p.Data.K == parsers.Obj {
					e, h = p.Data.Get("echo"), p.Data.Get("maybe")
				}
				wantHello := o.kind == "query-vars" && o.vars["t"] == true
				if e == nil || e.K != parsers.Str || e.S != o.echo || (h != nil) != wantHello || len(p.Data.Keys) != map[bool]int{false: 1, true: 2}[wantHello] {
					rc.Fail("result-not-its-own", o.kind, "operation %s %q with variables %v operationName %q got %s\n%s", o.id, o.query, o.vars, o.opName, clip(string(f.Payload)), desc())
					return
				}
			}
			checked++
		}
		w.CountN("result_contents_checked", checked)
	}
	if !protocol {
		rc.Res.Nontrivial = len(opOrder) > 0
		rc.Res.Sig = execsim.SigOf(proto, initMode, strings.Join(evSig, ","), w.LogHash())
		rc.Res.Sample = map[string]any{"proto": proto, "init_mode": initMode, "client_events": evSig, "checked": "goroutines and operation contexts after the session"}
		return
	}
	vmu.Lock()
	vio, vsite := violation, violationSite
	vmu.Unlock()
	if vio != "" {
		rc.Fail(vsite, "monitor", "%s\n%s", vio, desc())
		return
	}
	if ov := conn.Overlaps(); len(ov) > 0 {
		rc.Fail("concurrent-frame-write", "conn", "%s\n%s", ov[0], desc())
		return
	}
	frames := conn.Frames()
	ackSeen := false
	closeSeen := false
	perID := map[string][]simws.Frame{}
	for _, f := range frames {
		if closeSeen {
			rc.Fail("frame-after-close", "conn", "a frame (opcode %d type %q) was written after the close frame\n%s", f.Opcode, f.Type, desc())
			return
		}
		switch {
		case f.Opcode == 8:
			closeSeen = true
		case f.Opcode == 1:
			if f.Type == "connection_ack" {
				ackSeen = true
			}
			if o := opOf(f); f.ID != "" && o != nil {
				perID[o.id] = append(perID[o.id], f)
			}
			if (f.Type == "data" || f.Type == "next" || f.Type == "error" || f.Type == "complete") && !ackSeen {
				rc.Fail("operation-frame-before-ack", f.Type, "%s\n%s", f.Type, desc())
				return
			}
		}
	}
	// an error reported for one operation must not show up in the frames of another
	for _, f := range frames {
		if f.Opcode == 1 && f.Type == "error" {
			if m := lateErrRe.FindStringSubmatch(string(f.Payload)); m != nil {
				if o := opOf(f); o == nil || o.id != m[1] {
					got := "?"
					if o != nil {
						got = o.id
					}
					rc.Fail("error-of-another-operation", "late-error", "operation %s was terminated with the error that the producer of operation %s reported\n%s", got, m[1], desc())
					return
				}
			}
		}
	}
	if initMode == 3 && ackSeen {
		rc.Fail("ack-despite-rejected-init", "init", "%s", desc())
		return
	}
	mu.Lock()
	defer mu.Unlock()
	nData := 0
	for _, id := range opOrder {
		o := opsByID[id]
		fs := perID[id]
		completes, errorsSeen := 0, 0
		var datas []simws.Frame
		for _, f := range fs {
			switch f.Type {
			case "complete":
				completes++
				if completes > 1 {
					rc.Fail("more-than-one-complete", "op", "operation %s\n%s", id, desc())
					return
				}
			case "error":
				if completes > 0 {
					rc.Fail("frame-after-complete", "error", "operation %s\n%s", id, desc())
					return
				}
				errorsSeen++
			case dataType:
				if completes > 0 {
					rc.Fail("frame-after-complete", "data", "operation %s\n%s", id, desc())
					return
				}
				if errorsSeen > 0 {
					rc.Fail("result-after-error", "op", "operation %s\n%s", id, desc())
					return
				}
				datas = append(datas, f)
			default:
				rc.Fail("unexpected-frame-type", f.Type, "operation %s got a %q frame\n%s", id, f.Type, desc())
				return
			}
		}
		nData += len(datas)
		s := sources[id]
		if o.isStream && s != nil {
			// i-th data frame carries the i-th value, in emission order, no duplicates
			prev := 0
			for i, f := range datas {
				k := valueOf(f.Payload)
				if k > 0 {
					if k <= prev {
						rc.Fail("results-out-of-order", "op", "operation %s: data frame %d carries value %d after %d\n%s", id, i, k, prev, desc())
						return
					}
					prev = k
					if k > s.sent+1 {
						rc.Fail("result-never-emitted", "op", "operation %s: value %d was never emitted\n%s", id, k, desc())
						return
					}
				}
			}
			if len(datas) > len(s.done)+1 {
				rc.Fail("more-results-than-emissions", "op", "operation %s: %d data frames for %d completed emissions\n%s", id, len(datas), len(s.done), desc())
				return
			}
			if s.ctx.Err() == nil {
				rc.Fail("operation-context-not-cancelled", "op", "operation %s: its context is still live after the connection ended\n%s", id, desc())
				return
			}
		}
	}
	wantRec := 0
	for _, id := range opOrder {
		if o := opsByID[id]; failsOnFirstEvent(o.kind) {
			if src := sources[id]; src != nil && len(src.done) >= 1 {
				wantRec++
			}
		}
	}
	// an operation whose @opguard directive panics is recovered once, if the server got to it: it
	// did when a frame for its id was written (error/complete)
	// ... it certainly did when a frame for its id was written; it may have even if the connection
	// ended before that frame could be written
	opPanicsSeen, opPanicsSent := 0, 0
	for _, id := range opOrder {
		if o := opsByID[id]; o.kind == "sub-opdirective-panic" {
			opPanicsSent++
			if len(perID[id]) > 0 {
				opPanicsSeen++
			}
		}
	}
	thrown := int(u.PanicsThrown.Load())
	if got := int(panicsRecovered.Load()); got < wantRec+thrown+opPanicsSeen || got > wantRec+thrown+opPanicsSent {
		rc.Fail("recover-count", "recover", "RecoverFunc invoked %d times for %d serialisation panics, %d resolver panics and %d..%d panicking operation directives\n%s", got, wantRec, thrown, opPanicsSeen, opPanicsSent, desc())
		return
	}
	w.CountN("operation_directive_panics", opPanicsSeen)
	w.CountN("resolver_panics", thrown)
	w.CountN("serialisation_panics", wantRec)
	if n := closeCalls.Load(); n > 1 || (ackSeen && n != 1) {
		rc.Fail("close-callback-count", fmt.Sprintf("%d", n), "CloseFunc fired %d times (ack seen: %v)\n%s", n, ackSeen, desc())
		return
	}
	w.CountN("data_frames", nData)
	w.CountN("settle_checks", settles)
	w.CountN("operations", len(opOrder))
	w.Count("proto_" + proto)
	w.Count(fmt.Sprintf("initmode_%d", initMode))
	if ackSeen {
		w.Count("acknowledged_sessions")
	}
	rc.Res.Nontrivial = len(opOrder) > 0 && ackSeen
	rc.Res.Sig = execsim.SigOf(proto, initMode, strings.Join(evSig, ","), w.LogHash())
	var fl []string
	for _, f := range frames {
		if f.Opcode == 1 {
			fl = append(fl, f.Type+":"+f.ID)
		} else {
			fl = append(fl, fmt.Sprintf("op%d", f.Opcode))
		}
	}
	rc.Res.Sample = map[string]any{"proto": proto, "init_mode": initMode, "client_events": evSig, "server_frames": fl}
	_ = parsers.Null
	_ = refexec.KValue
}

var roleRe = regexp.MustCompile(`transport\.\(\*wsConnection\)\.([A-Za-z]+)`)

// goroutineRole names the calling goroutine by the outermost wsConnection method on its stack
// (run, init, subscribe, closeOnCancel, keepAlive, ping, ...).
func goroutineRole() string {
	buf := make([]byte, 8192)
	buf = buf[:runtime.Stack(buf, false)]
	m := roleRe.FindAllSubmatch(buf, -1)
	if len(m) == 0 {
		return "other"
	}
	return string(m[len(m)-1][1])
}

var idAtRe = regexp.MustCompile(`@(\d+)\|`)

// valueOf extracts the emission number from a data payload (0 when not identifiable).
func valueOf(p json.RawMessage) int {
	var m struct {
		Data map[string]json.RawMessage `json:"data"`
	}
	if json.Unmarshal(p, &m) != nil {
		return 0
	}
	for _, v := range m.Data {
		var n int
		if json.Unmarshal(v, &n) == nil && n > 0 {
			return n
		}
		if mm := idAtRe.FindStringSubmatch(string(v)); mm != nil {
			k, _ := strconv.Atoi(mm[1])
			return k
		}
	}
	return 0
}

func clip(s string) string {
	if len(s) > 120 {
		return s[:120] + "…"
	}
	return s
}
