// Package fedsim is the federation `_entities` simulation for C20: representation lists over the
// fed probe with per-representation faults; every entity resolver call parks so that the
// per-type groups and per-entity goroutines complete in a tape-chosen order; the oracle is an
// echo computed from each representation alone.
package fedsim

import (
	"context"
	"encoding/json"
	"errors"
	"fmt"
	"sort"
	"strings"
	"sync"
	"sync/atomic"
	"testing/synctest"

	"github.com/99designs/gqlgen/graphql"
	"github.com/99designs/gqlgen/graphql/executor"

	"verifsim/core"
	"verifsim/execsim"
	"verifsim/parsers"
	"verifsim/probereg"
)

const query = `query($reps: [_Any!]!) { _entities(representations: $reps) { __typename ... on Acct { id label } ... on Prod { sku upc pack title } ... on Rev { seq body author { id label } } ... on Ship { code weight } ... on Bulk { id note } ... on BulkReq { id size } ... on Crate { id holder { id } holder_id } ... on Parcel { id route { origin { address { city zip } } } } } }`

// rep is one representation with what the oracle expects of it.
type rep struct {
	Type    string
	JSON    map[string]any
	Fault   string // "", res-error, res-panic, key-wrong-type, key-missing, unknown-type, typename-not-string, requires-missing
	Expect  string // canonical JSON of the expected element ("null" when it must fail)
	HookKey string // key under which the resolver call for this rep parks (single resolvers)
	Multi   bool
}

func str(s string) *string { return &s }

func mkRep(t *core.Tape, i int) rep {
	id := fmt.Sprintf("k%d", t.Choose(4, "keyval")) // few distinct keys: duplicates are frequent
	switch t.Choose(9, "type") {
	case 8:
		return rep{Type: "Parcel", JSON: map[string]any{"__typename": "Parcel", "id": id, "route": map[string]any{"origin": map[string]any{"address": map[string]any{"city": "c-" + id, "zip": "z-" + id}}}}, HookKey: "Parcel|" + id,
			Expect: fmt.Sprintf(`{"__typename":"Parcel","id":%q,"route":{"origin":{"address":{"city":%q,"zip":%q}}}}`, id, "c-"+id, "z-"+id)}
	case 7:
		return rep{Type: "Crate", JSON: map[string]any{"__typename": "Crate", "id": id, "holder": map[string]any{"id": "h-" + id}, "holder_id": "hs-" + id}, HookKey: "Crate|" + id,
			Expect: fmt.Sprintf(`{"__typename":"Crate","id":%q,"holder":{"id":%q},"holder_id":%q}`, id, "h-"+id, "hs-"+id)}
	case 0:
		return rep{Type: "Acct", JSON: map[string]any{"__typename": "Acct", "id": id}, HookKey: "Acct|" + id,
			Expect: fmt.Sprintf(`{"__typename":"Acct","id":%q,"label":%q}`, id, "acct:"+id)}
	case 1:
		return rep{Type: "Prod", JSON: map[string]any{"__typename": "Prod", "sku": id}, HookKey: "Prod|sku=" + id,
			Expect: fmt.Sprintf(`{"__typename":"Prod","sku":%q,"upc":null,"pack":null,"title":%q}`, id, "sku:"+id)}
	case 2:
		if t.Bool(1, 4, "null-last-key-field") {
			// composite key whose LAST field is null while an earlier one has a value: still a
			// usable key (only an all-null key is skipped)
			return rep{Type: "Prod", JSON: map[string]any{"__typename": "Prod", "upc": id, "pack": nil}, HookKey: fmt.Sprintf("Prod|upc=%s/<nil>", id),
				Expect: fmt.Sprintf(`{"__typename":"Prod","sku":null,"upc":%q,"pack":null,"title":%q}`, id, "upc:"+id+"/<nil>")}
		}
		pack := t.Choose(3, "pack")
		m := map[string]any{"__typename": "Prod", "upc": id, "pack": pack}
		if t.Bool(1, 2, "null-sku") {
			m["sku"] = nil // first key all-null: the second key must be used
		}
		return rep{Type: "Prod", JSON: m, HookKey: fmt.Sprintf("Prod|upc=%s/%d", id, pack),
			Expect: fmt.Sprintf(`{"__typename":"Prod","sku":null,"upc":%q,"pack":%d,"title":%q}`, id, pack, fmt.Sprintf("upc:%s/%d", id, pack))}
	case 3:
		seq := t.Choose(3, "seq")
		return rep{Type: "Rev", JSON: map[string]any{"__typename": "Rev", "author": map[string]any{"id": id}, "seq": seq}, HookKey: fmt.Sprintf("Rev|%s/%d", id, seq),
			Expect: fmt.Sprintf(`{"__typename":"Rev","seq":%d,"body":%q,"author":{"id":%q,"label":%q}}`, seq, fmt.Sprintf("rev:%s/%d", id, seq), id, "acct:"+id)}
	case 4:
		wt := 1 + t.Choose(50, "weight")
		return rep{Type: "Ship", JSON: map[string]any{"__typename": "Ship", "code": id, "weight": wt}, HookKey: "Ship|" + id,
			Expect: fmt.Sprintf(`{"__typename":"Ship","code":%q,"weight":%d}`, id, wt)}
	case 5:
		return rep{Type: "Bulk", Multi: true, JSON: map[string]any{"__typename": "Bulk", "id": id},
			Expect: fmt.Sprintf(`{"__typename":"Bulk","id":%q,"note":%q}`, id, "bulk:"+id)}
	default:
		size := 1 + t.Choose(50, "size")
		return rep{Type: "BulkReq", Multi: true, JSON: map[string]any{"__typename": "BulkReq", "id": id, "size": size},
			Expect: fmt.Sprintf(`{"__typename":"BulkReq","id":%q,"size":%d}`, id, size)}
	}
}

func keyField(typ string) string {
	switch typ {
	case "Acct", "Bulk", "BulkReq", "Crate", "Parcel":
		return "id"
	case "Ship":
		return "code"
	case "Rev":
		return "seq"
	}
	return "sku"
}

// Run is the scenario body.
func Run(rc *core.RunCtx) {
	t := rc.Tape
	w := rc.W
	v := &probereg.Fed[t.Choose(len(probereg.Fed), "variant")]
	n := t.Choose(9, "nreps")
	reps := make([]rep, n)
	for i := range reps {
		reps[i] = mkRep(t, i)
	}
	// faults: none, one single fault, or a seeded pair
	nFaults := []int{0, 1, 1, 2}[t.Choose(4, "nfaults")]
	if n == 0 {
		nFaults = 0
	}
	resFault := map[string]string{} // hook key / multi type -> error | panic
	for f := 0; f < nFaults; f++ {
		i := t.Choose(n, "fault-at")
		r := &reps[i]
		if r.Fault != "" {
			continue
		}
		// (a missing @requires field is not a fault the statement speaks about: not injected)
		kind := []string{"res-error", "res-panic", "key-wrong-type", "key-missing", "unknown-type", "typename-not-string"}[t.Choose(6, "fault-kind")]
		switch kind {
		case "res-error", "res-panic":
			if r.Multi {
				resFault["multi|"+r.Type] = kind
			} else {
				resFault[r.HookKey] = kind
			}
		case "key-wrong-type":
			k := keyField(r.Type)
			if r.Type == "Prod" {
				if _, has := r.JSON["upc"]; has {
					k = "pack"
				}
			}
			// a JSON kind the key's scalar really rejects
			if k == "seq" || k == "pack" {
				r.JSON[k] = "not-a-number"
			} else {
				r.JSON[k] = map[string]any{"x": 1}
			}
		case "key-missing":
			k := keyField(r.Type)
			if r.Type == "Prod" {
				delete(r.JSON, "sku")
				delete(r.JSON, "upc")
			} else {
				delete(r.JSON, k)
			}
		case "unknown-type":
			r.JSON["__typename"] = "Nope"
		case "typename-not-string":
			r.JSON["__typename"] = 5
		case "requires-missing":
			switch r.Type {
			case "Ship":
				delete(r.JSON, "weight")
			case "BulkReq":
				delete(r.JSON, "size")
			default:
				kind = ""
			}
		}
		r.Fault = kind
	}
	// expected failures: a faulted rep fails; a resolver fault hits every rep that maps to the
	// same resolver call (duplicates of a single key; the whole batch for multi resolvers)
	fails := make([]bool, n)
	panics := 0
	seenPanic := map[string]bool{}
	for i, r := range reps {
		switch r.Fault {
		case "key-wrong-type", "key-missing", "unknown-type", "typename-not-string", "requires-missing":
			fails[i] = true
			continue
		}
		key := r.HookKey
		if r.Multi {
			key = "multi|" + r.Type
		}
		if k, ok := resFault[key]; ok {
			fails[i] = true
			if k == "res-panic" && (!r.Multi || !seenPanic[key]) {
				seenPanic[key] = true
				panics++
			}
		}
	}
	// a multi batch is only called if at least one of its reps survives key extraction; count
	// panics of multi batches once, and only when the batch is actually invoked (checked below
	// against the hook log)

	var hookCalls []string
	var hmu sync.Mutex
	var recovered atomic.Int32
	honourCtx := t.Bool(1, 2, "honour-ctx")
	hook := func(ctx context.Context, typ, key string) error {
		k := typ + "|" + key
		fk := k
		if typ == "Bulk" || typ == "BulkReq" {
			fk = "multi|" + typ
		}
		hmu.Lock()
		hookCalls = append(hookCalls, fk)
		hmu.Unlock()
		w.Logf("entity-call", k, "")
		if _, killed := w.Park("ent", k, nil).(core.Kill); killed {
			return errors.New("killed")
		}
		if honourCtx && ctx.Err() != nil {
			// a context-aware resolver (database/sql, net/http, ...): nobody cancels the context
			// of a request that is still being served, so this must never be taken
			return ctx.Err()
		}
		switch resFault[fk] {
		case "res-error":
			return errors.New("E:" + k)
		case "res-panic":
			panic("P:" + k)
		}
		return nil
	}
	es := v.Build(v.NewStub(), hook)
	ex := executor.New(es)
	ex.SetRecoverFunc(func(ctx context.Context, err any) error {
		recovered.Add(1)
		return fmt.Errorf("recovered:%v", err)
	})
	var repsJSON []any
	for _, r := range reps {
		// through JSON, as a router would send it (numbers as json.Number like gqlgen's transports)
		b, _ := json.Marshal(r.JSON)
		dec := json.NewDecoder(strings.NewReader(string(b)))
		dec.UseNumber()
		var m map[string]any
		dec.Decode(&m)
		repsJSON = append(repsJSON, m)
	}
	if repsJSON == nil {
		repsJSON = []any{}
	}
	ctx := graphql.StartOperationTrace(context.Background())
	opc, gerrs := ex.CreateOperationContext(ctx, &graphql.RawParams{Query: query, Variables: map[string]any{"reps": repsJSON}})
	if len(gerrs) > 0 {
		rc.Fail("valid-operation-rejected", "gate", "%v", gerrs)
		return
	}
	h, hctx := ex.DispatchOperation(ctx, opc)
	done := make(chan struct{})
	var resp *graphql.Response
	go func() {
		defer close(done)
		resp = h(hctx)
	}()
	sched := t.Choose(3, "sched")
	var released []string
	maxEnabled := 0
	finished := false
	for step := 0; step < 500; step++ {
		synctest.Wait()
		w.NextStep()
		select {
		case <-done:
			finished = true
		default:
		}
		if finished {
			break
		}
		items := w.Parked()
		if len(items) == 0 {
			site, dump := core.StuckSite()
			rc.Fail("stuck", site, "_entities did not finish although nothing is parked\n%s", dump)
			return
		}
		if len(items) > maxEnabled {
			maxEnabled = len(items)
		}
		var sel []*core.Item
		switch sched {
		case 0:
			sel = items[:1]
		case 1:
			sel = []*core.Item{items[t.Choose(len(items), "pick")]}
		default:
			sel = items // burst
		}
		for _, it := range sel {
			released = append(released, it.ID())
			w.Release(it, nil)
		}
	}
	if !finished {
		rc.Fail("stuck", "step-budget", "step budget exhausted")
		return
	}
	b, _ := json.Marshal(resp)
	desc := func() string {
		var sb strings.Builder
		fmt.Fprintf(&sb, "variant=%s sched=%d\nrepresentations:", v.Name, sched)
		for i, r := range reps {
			jb, _ := json.Marshal(r.JSON)
			fmt.Fprintf(&sb, "\n  [%d] %s fault=%q expect-fail=%v", i, jb, r.Fault, fails[i])
		}
		fmt.Fprintf(&sb, "\nresolver faults: %v\nresponse: %s", resFault, b)
		return sb.String()
	}
	j, err := parsers.ParseJSON(b)
	if err != nil {
		rc.Fail("invalid-json", "response", "%v\n%s", err, desc())
		return
	}
	list := j.Get("data").Get("_entities")
	if list == nil || list.K != parsers.Arr {
		rc.Fail("entities-not-a-list", "response", "%s", desc())
		return
	}
	if len(list.A) != n {
		rc.Fail("entities-length", "response", "%d elements for %d representations\n%s", len(list.A), n, desc())
		return
	}
	nerr := 0
	if es := j.Get("errors"); es != nil && es.K == parsers.Arr {
		nerr = len(es.A)
	}
	anyFail := false
	for i, r := range reps {
		got := list.A[i].Canon()
		if fails[i] {
			anyFail = true
			if got != "null" {
				rc.Fail("failed-representation-not-null", faultSite(r), "element %d should be null (fault %q) but is %s\n%s", i, r.Fault, got, desc())
				return
			}
			continue
		}
		if got != r.Expect {
			site := "neighbour-changed"
			if !anyFaultOfType(reps, resFault, r.Type) {
				site = "wrong-entity"
			} else if got == "null" {
				site = "neighbour-nulled-" + firstFaultOfType(reps, resFault, r.Type)
			}
			rc.Fail("element-differs-from-its-representation", site, "element %d is %s, expected %s\n%s", i, got, r.Expect, desc())
			return
		}
	}
	if anyFail && nerr == 0 {
		rc.Fail("failure-without-error", "response", "some representation failed but the response has no error\n%s", desc())
		return
	}
	if !anyFail && nerr > 0 {
		rc.Fail("error-without-failure", "response", "no representation should fail but the response has errors\n%s", desc())
		return
	}
	// RecoverFunc once per injected panic that was actually reached
	reached := map[string]bool{}
	hmu.Lock()
	calls := append([]string(nil), hookCalls...)
	hmu.Unlock()
	wantRec := 0
	for _, c := range calls {
		if resFault[c] == "res-panic" {
			wantRec++
		}
		reached[c] = true
	}
	if int(recovered.Load()) != wantRec {
		rc.Fail("recover-count", "recover", "RecoverFunc invoked %d times for %d panicking resolver calls\n%s", recovered.Load(), wantRec, desc())
		return
	}
	for _, r := range reps {
		w.Count("rep_" + r.Type)
		if r.Fault != "" {
			w.Count("fault_" + r.Fault)
		}
	}
	w.Count("variant_" + v.Name)
	rc.Res.Nontrivial = n >= 2
	sort.Strings(released)
	var rs []string
	for _, r := range reps {
		jb, _ := json.Marshal(r.JSON)
		rs = append(rs, string(jb)+"!"+r.Fault)
	}
	rc.Res.Sig = execsim.SigOf(v.Name, strings.Join(rs, ";"), sched, w.LogHash())
	rc.Res.Sample = map[string]any{"variant": v.Name, "representations": rs, "resolver_faults": resFault, "response": string(b)}
}

func faultSite(r rep) string {
	m := "single"
	if r.Multi {
		m = "multi"
	}
	return m + "-" + r.Fault
}

func anyFaultOfType(reps []rep, resFault map[string]string, typ string) bool {
	return firstFaultOfType(reps, resFault, typ) != ""
}

func firstFaultOfType(reps []rep, resFault map[string]string, typ string) string {
	for _, r := range reps {
		// representations whose __typename was corrupted no longer belong to the group of typ
		if r.Type == typ && r.Fault != "" && r.Fault != "unknown-type" && r.Fault != "typename-not-string" {
			m := "single"
			if r.Multi {
				m = "multi"
			}
			return m + "-" + r.Fault
		}
	}
	return ""
}
