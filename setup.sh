#!/bin/bash
# builds the orchestrator and the instrumentation tool from files on disk (offline)
set -e
cd /verif
export PATH=/opt/veriftools/go1.26.8/bin:$PATH GOTOOLCHAIN=local GOFLAGS=-mod=mod GOPROXY=off GOSUMDB=off
mkdir -p bin evidence replays
if [ ! -x bin/check ] || [ -n "$(find cmd/check -newer bin/check -name '*.go' 2>/dev/null)" ]; then
  go build -o bin/check ./cmd/check
fi
if [ -d tools/instrument ] && [ -f tools/instrument/main.go ]; then
  if [ ! -x bin/instrument ] || [ -n "$(find tools/instrument -newer bin/instrument -name '*.go' 2>/dev/null)" ]; then
    go build -o bin/instrument ./tools/instrument
  fi
fi
[ "${1:-}" = quiet ] || echo "setup ok"
