#!/bin/bash
# developer helper (not registered): materialise the scratch tree persistently under /tmp/proto
set -e
export PATH=/opt/veriftools/go1.26.8/bin:$PATH GOTOOLCHAIN=local GOFLAGS=-mod=mod GOPROXY=off GOSUMDB=off
S=${S:-/tmp/proto}
mkdir -p $S/verifsim
rsync -a --delete --exclude=.git --exclude=_examples --exclude=docs --exclude=integration --exclude=codegen/testserver --exclude='plugin/*/testdata' --exclude=bin /repo/ $S/gqlgen/
/verif/bin/instrument -root $S/gqlgen -mutex >/dev/null
rsync -a --exclude=go.mod.tmpl /verif/harness/ $S/verifsim/
cp /verif/harness/go.mod.tmpl $S/verifsim/go.mod; cp /repo/go.sum $S/verifsim/go.sum
cd $S/verifsim
VARS=${VARS:-v0}
if [ -n "$REGEN" ] || [ ! -d probe ]; then
go build -o gen.bin ./gen
for V in $VARS; do
  P=core; case $V in f*) P=fed;; esac
  mkdir -p probe/$V; cp /verif/probes/$P/schema.graphql probe/$V/; python3 -c "import json,sys; [open(\"probe/$V/extra.graphql\",\"w\").write(v[\"extra_schema\"]) for v in json.load(open(\"/verif/probes/$P/variants.json\")) if v[\"name\"]==\"$V\" and v.get(\"extra_schema\")]"; [ $P = core ] && cp /verif/probes/core/blob.go.txt probe/$V/blob.go
  python3 /verif/tools/mkconfig.py $P $V > gqlgen.$V.yml
  ./gen.bin gqlgen.$V.yml probe/$V/stub.go & 
done; wait
for V in $VARS; do P=core; case $V in f*) P=fed;; esac; cp /verif/probes/$P/glue.go.txt probe/$V/glue.go; done
fi
python3 /verif/tools/mkreg.py $VARS > probereg/reg_gen.go
