#!/bin/bash
# Runs the repository's pinned test suite (guard off: no build tag) and compares with BASELINE.json.
# usage: baseline.sh [repo dir]   (default /repo)
R=${1:-/repo}
# the pinned suite runs with the repository's default toolchain (go 1.23.x selected through go.mod),
# not with the newer Go the checks use: some tests are tagged by Go version
PATH=$(echo "$PATH" | tr ':' '\n' | grep -v veriftools/go1.26 | paste -sd:)
unset GOTOOLCHAIN GOFLAGS GOPROXY GOSUMDB
OUT=$(mktemp /tmp/baseline.XXXXXX.json)
trap 'rm -f $OUT' EXIT
( cd $R && go test -mod=mod -json -vet=off -count=1 -timeout 25m ./... ) > $OUT 2>/dev/null
python3 - "$OUT" <<'PY'
import json,sys
base=set(json.load(open('/root/.vp/BASELINE.json'))['stable_pass'])
res={}
for l in open(sys.argv[1]):
    try: e=json.loads(l)
    except Exception: continue
    if e.get('Action') in('pass','fail','skip') and e.get('Test'):
        res[e['Package']+'::'+e['Test']]=e['Action']
passed={k for k,v in res.items() if v=='pass'}
missing=sorted(base-passed)
print(f"baseline: {len(base&passed)}/{len(base)} stable tests pass; {len(missing)} missing")
for m in missing[:40]: print("  NOT PASSING:", m, res.get(m))
sys.exit(1 if missing else 0)
PY
