// Command check is the orchestrator of the deterministic-simulation checks. For one property it
// copies /repo's working tree into a scratch directory, instruments the copy, generates the
// probe servers from the copied templates, builds the scenario test binary, runs seeded
// simulations on all cores, minimises and replays violations, compares them with
// known_findings.json and writes /verif/evidence/<id>.json.
//
// Exit status: 0 property held (KNOWN-FINDING lines allowed), 1 VIOLATION, 2 infrastructure.
package main

import (
	"bufio"
	"bytes"
	"encoding/json"
	"errors"
	"flag"
	"fmt"
	"os"
	"os/exec"
	"path/filepath"
	"sort"
	"strconv"
	"strings"
	"sync"
	"time"
)

// verifDir is /verif; repoDir is /repo; outDir is where evidence and replay files go (/verif).
// All can be overridden for development only (evaluating a breaking change in a scratch worktree,
// from a snapshot of the harness, while the harness is being edited): VERIF_DEV_DIR,
// VERIF_DEV_REPO, VERIF_DEV_OUT. Registered commands never set them.
var verifDir = envOr("VERIF_DEV_DIR", "/verif")
var repoDir = envOr("VERIF_DEV_REPO", "/repo")
var outDir = envOr("VERIF_DEV_OUT", verifDir)

func envOr(k, d string) string {
	if v := os.Getenv(k); v != "" {
		return v
	}
	return d
}

type tierSpec struct {
	Runs     int           // total run indices
	Budget   time.Duration // wall budget of the search phase
	Variants []string      // core probe variants
	Fed      []string      // fed probe variants
}

type propSpec struct {
	ID        string
	Scenario  string // package dir under harness/scenario
	Race      bool
	Level     string
	Quick     tierSpec
	Thorough  tierSpec
	Cpu       int // GOMAXPROCS per worker
	Mutex     bool
	MapOrder  bool
	Real      []string
	Stubbed   []string
	Assume    []string
	Rule      string
	Faults    string
	ExtraEnv  map[string]string
	NoSimTime bool
	SmokeRuns int // runs of the determinism smoke test (default 24)
	// Parts are additional scenarios that serve this property (each gets Percent of the runs and
	// of the search budget; the main scenario gets the rest).
	Parts []partSpec
	// ChunkRuns > 0: the main scenario's worker processes are restarted at every multiple of
	// ChunkRuns (the scenario treats those run indices as cold starts of the process)
	ChunkRuns int
}

type partSpec struct {
	Scenario string
	Percent  int
}

func die(code int, format string, args ...any) {
	fmt.Fprintf(os.Stderr, "check: "+format+"\n", args...)
	os.Exit(code)
}

type runResult struct {
	Type       string          `json:"t"`
	Idx        int             `json:"idx"`
	Seed       uint64          `json:"seed"`
	OK         bool            `json:"ok"`
	Violation  *violation      `json:"violation,omitempty"`
	Tape       []uint32        `json:"tape,omitempty"`
	Sig        string          `json:"sig,omitempty"`
	LogHash    string          `json:"loghash,omitempty"`
	Nontrivial bool            `json:"nontrivial,omitempty"`
	SimNS      int64           `json:"sim_ns,omitempty"`
	Steps      int             `json:"steps,omitempty"`
	Trace      []string        `json:"trace,omitempty"`
	Sample     json.RawMessage `json:"sample,omitempty"`
	Counters   map[string]int  `json:"counters,omitempty"`
	Proc       int             `json:"proc"`
}

type violation struct {
	Property  string `json:"property"`
	Invariant string `json:"invariant"`
	Site      string `json:"site"`
	Detail    string `json:"detail"`
}

func (v *violation) fingerprint() string { return v.Property + "/" + v.Invariant + "/" + v.Site }

type replayFile struct {
	Property    string            `json:"property"`
	Scenario    string            `json:"scenario"`
	Tier        string            `json:"tier"`
	Seed        uint64            `json:"seed"`
	RunIdx      int               `json:"run_idx"`
	Env         map[string]string `json:"env,omitempty"`
	Tape        []uint32          `json:"tape"`
	Minimised   []uint32          `json:"minimised_tape,omitempty"`
	Fingerprint string            `json:"fingerprint"`
	Violation   *violation        `json:"expected_violation"`
	Trace       []string          `json:"trace,omitempty"`
	ProcessLvl  bool              `json:"process_level,omitempty"`
	Proc        int               `json:"proc"`
	// TimingDependent: the violation needed several replay attempts (the changed code races
	// below the seams the scheduler controls, e.g. inside a library both requests call into);
	// replaying retries up to ReplayAttempts times
	TimingDependent bool `json:"timing_dependent,omitempty"`
	ReplayAttempts  int  `json:"replay_attempts,omitempty"`
}

type knownFile struct {
	Findings []knownEntry `json:"findings"`
	Fixed    []knownEntry `json:"fixed"`
}

type knownEntry struct {
	Property    string `json:"property"`
	Fingerprint string `json:"fingerprint"`
	WhatFails   string `json:"what_fails"`
	Commit      string `json:"commit,omitempty"`
	Line        string `json:"line,omitempty"`
}

func loadKnown() knownFile {
	var k knownFile
	b, err := os.ReadFile(filepath.Join(verifDir, "known_findings.json"))
	if err != nil {
		return k
	}
	if err := json.Unmarshal(b, &k); err != nil {
		die(2, "known_findings.json: %v", err)
	}
	return k
}

func matchFP(pattern, fp string) bool {
	if strings.HasSuffix(pattern, "*") {
		return strings.HasPrefix(fp, strings.TrimSuffix(pattern, "*"))
	}
	return pattern == fp
}

type ctx struct {
	spec    *propSpec
	tier    string
	ts      tierSpec
	seed    uint64
	scratch string
	mod     string // scratch/verifsim
	bin     string
	env     []string
	sites   []string // instrumented sites
	t0      time.Time
	buildS  float64
	selfN   int
	bins    map[string]string
	scen    string // scenario currently being run
}

func goEnv() []string {
	env := os.Environ()
	set := func(k, v string) {
		for i, e := range env {
			if strings.HasPrefix(e, k+"=") {
				env[i] = k + "=" + v
				return
			}
		}
		env = append(env, k+"="+v)
	}
	set("PATH", "/opt/veriftools/go1.26.8/bin:"+os.Getenv("PATH"))
	set("GOTOOLCHAIN", "local")
	set("GOFLAGS", "-mod=mod")
	set("GOPROXY", "off")
	set("GOSUMDB", "off")
	set("CGO_ENABLED", "1")
	return env
}

func (c *ctx) run(dir string, extraEnv []string, name string, args ...string) ([]byte, error) {
	cmd := exec.Command(name, args...)
	cmd.Dir = dir
	cmd.Env = append(append([]string{}, c.env...), extraEnv...)
	var out bytes.Buffer
	cmd.Stdout = &out
	cmd.Stderr = &out
	err := cmd.Run()
	return out.Bytes(), err
}

func (c *ctx) must(dir string, what string, name string, args ...string) []byte {
	out, err := c.run(dir, nil, name, args...)
	if err != nil {
		die(2, "%s failed: %v\n%s", what, err, tail(out, 6000))
	}
	return out
}

func tail(b []byte, n int) string {
	if len(b) > n {
		return "…" + string(b[len(b)-n:])
	}
	return string(b)
}

// prepare materialises the scratch tree: copy of /repo, instrumentation, harness module, probes.
func (c *ctx) prepare() {
	base := os.Getenv("TMPDIR")
	if base == "" {
		base = "/tmp"
	}
	var err error
	c.scratch, err = os.MkdirTemp(base, "gqlsim-"+c.spec.ID+"-")
	if err != nil {
		die(2, "mktemp: %v", err)
	}
	c.mod = filepath.Join(c.scratch, "verifsim")
	c.must("/", "rsync of /repo", "rsync", "-a", "--exclude=.git", "--exclude=_examples", "--exclude=docs", "--exclude=integration",
		"--exclude=codegen/testserver", "--exclude=plugin/*/testdata", "--exclude=/bin", repoDir+"/", filepath.Join(c.scratch, "gqlgen")+"/")
	c.must("/", "copy of harness", "rsync", "-a", "--exclude=go.mod.tmpl", filepath.Join(verifDir, "harness")+"/", c.mod+"/")
	cp := func(from, to string) {
		b, err := os.ReadFile(from)
		if err != nil {
			die(2, "read %s: %v", from, err)
		}
		if err := os.MkdirAll(filepath.Dir(to), 0o755); err != nil {
			die(2, "%v", err)
		}
		if err := os.WriteFile(to, b, 0o644); err != nil {
			die(2, "write %s: %v", to, err)
		}
	}
	cp(filepath.Join(verifDir, "harness/go.mod.tmpl"), filepath.Join(c.mod, "go.mod"))
	cp(filepath.Join(repoDir, "go.sum"), filepath.Join(c.mod, "go.sum"))

	if c.spec.Mutex || c.spec.MapOrder {
		args := []string{"-root", filepath.Join(c.scratch, "gqlgen")}
		if c.spec.Mutex {
			args = append(args, "-mutex")
		}
		if c.spec.MapOrder {
			args = append(args, "-maporder")
		}
		out := c.must(verifDir, "instrumentation pass", filepath.Join(verifDir, "bin/instrument"), args...)
		for _, l := range strings.Split(strings.TrimSpace(string(out)), "\n") {
			if strings.HasPrefix(l, "SITE ") {
				c.sites = append(c.sites, strings.TrimPrefix(l, "SITE "))
			}
		}
		if len(c.sites) == 0 {
			die(2, "instrumentation pass matched nothing:\n%s", out)
		}
	}

	// probes
	c.must(c.mod, "build of generator driver", "go", "build", "-o", "gen.bin", "./gen")
	if c.spec.MapOrder {
		c.must("/", "copy of generator probe projects", "rsync", "-a", filepath.Join(verifDir, "probes/gen")+"/", filepath.Join(c.mod, "genprojects")+"/")
	}
	type job struct{ probe, variant string }
	var jobs []job
	for _, v := range c.ts.Variants {
		jobs = append(jobs, job{"core", v})
	}
	for _, v := range c.ts.Fed {
		jobs = append(jobs, job{"fed", v})
	}
	var wg sync.WaitGroup
	errs := make([]string, len(jobs))
	for i, j := range jobs {
		wg.Add(1)
		go func(i int, j job) {
			defer wg.Done()
			dir := filepath.Join(c.mod, "probe", j.variant)
			os.MkdirAll(dir, 0o755)
			pdir := filepath.Join(verifDir, "probes", j.probe)
			ents, _ := os.ReadDir(pdir)
			vd, verr := loadVariant(j.probe, j.variant)
			if verr != nil {
				errs[i] = verr.Error()
				return
			}
			for _, e := range ents {
				switch {
				case strings.HasSuffix(e.Name(), ".graphql"):
					cp(filepath.Join(pdir, e.Name()), filepath.Join(dir, e.Name()))
					if vd.RenameMutation {
						b, _ := os.ReadFile(filepath.Join(dir, e.Name()))
						src := strings.Replace(string(b), "type Mutation {", "schema { query: Query mutation: RootMutation subscription: Subscription }\n\ntype RootMutation {", 1)
						os.WriteFile(filepath.Join(dir, e.Name()), []byte(src), 0o644)
					}
				case strings.HasSuffix(e.Name(), ".go.txt") && e.Name() != "glue.go.txt":
					cp(filepath.Join(pdir, e.Name()), filepath.Join(dir, strings.TrimSuffix(e.Name(), ".txt")))
				}
			}
			if vd.ExtraSchema != "" {
				os.WriteFile(filepath.Join(dir, "extra.graphql"), []byte(vd.ExtraSchema), 0o644)
			}
			cfg, err := probeConfig(j.probe, j.variant)
			if err != nil {
				errs[i] = err.Error()
				return
			}
			cfgPath := filepath.Join(c.mod, "gqlgen."+j.variant+".yml")
			os.WriteFile(cfgPath, []byte(cfg), 0o644)
			out, err := c.run(c.mod, nil, "./gen.bin", cfgPath, filepath.Join("probe", j.variant, "stub.go"))
			if err != nil {
				errs[i] = fmt.Sprintf("generation of %s/%s failed: %v\n%s", j.probe, j.variant, err, tail(out, 3000))
				return
			}
			cp(filepath.Join(pdir, "glue.go.txt"), filepath.Join(dir, "glue.go"))
		}(i, j)
	}
	wg.Wait()
	for _, e := range errs {
		if e != "" {
			die(2, "%s", e)
		}
	}
	os.WriteFile(filepath.Join(c.mod, "probereg/reg_gen.go"), []byte(regFile(c.ts.Variants, c.ts.Fed)), 0o644)
}

type variantDef struct {
	Name        string `json:"name"`
	Layout      string `json:"layout"`
	WorkerLimit int    `json:"worker_limit"`
	Extra       string `json:"extra"`
	Federation  string `json:"federation"`
	Models      string `json:"models"`
	// RenameMutation generates the probe with a mutation root type that is not called Mutation
	// (schema { mutation: RootMutation }).
	RenameMutation bool `json:"rename_mutation"`
	// ExtraSchema is schema text only this variant has (written as extra.graphql).
	ExtraSchema string `json:"extra_schema"`
}

func loadVariant(probe, name string) (*variantDef, error) {
	b, err := os.ReadFile(filepath.Join(verifDir, "probes", probe, "variants.json"))
	if err != nil {
		return nil, err
	}
	var vs []variantDef
	if err := json.Unmarshal(b, &vs); err != nil {
		return nil, err
	}
	for i := range vs {
		if vs[i].Name == name {
			return &vs[i], nil
		}
	}
	return nil, fmt.Errorf("unknown variant %s/%s", probe, name)
}

func probeConfig(probe, name string) (string, error) {
	b, err := os.ReadFile(filepath.Join(verifDir, "probes", probe, "variants.json"))
	if err != nil {
		return "", err
	}
	var vs []variantDef
	if err := json.Unmarshal(b, &vs); err != nil {
		return "", err
	}
	for _, v := range vs {
		if v.Name != name {
			continue
		}
		d := "probe/" + name
		var sb strings.Builder
		fmt.Fprintf(&sb, "schema: [%s/*.graphql]\n", d)
		wl := ""
		if v.WorkerLimit > 0 {
			wl = fmt.Sprintf(", worker_limit: %d", v.WorkerLimit)
		}
		if v.Layout == "follow" {
			fmt.Fprintf(&sb, "exec: {layout: follow-schema, dir: %s, package: %s%s}\n", d, probe, wl)
		} else {
			fmt.Fprintf(&sb, "exec: {filename: %s/generated.go, package: %s%s}\n", d, probe, wl)
		}
		fmt.Fprintf(&sb, "model: {filename: %s/models_gen.go, package: %s}\n", d, probe)
		if v.Federation != "" {
			fmt.Fprintf(&sb, "federation: {filename: %s/federation.go, package: %s%s}\n", d, probe, v.Federation)
		}
		sb.WriteString("skip_mod_tidy: true\nskip_validation: true\n")
		sb.WriteString(v.Extra)
		mf := "models.yml"
		if v.Models != "" {
			mf = v.Models
		}
		m, err := os.ReadFile(filepath.Join(verifDir, "probes", probe, mf))
		if err == nil {
			sb.WriteString(strings.ReplaceAll(string(m), "@V@", name))
		}
		return sb.String(), nil
	}
	return "", fmt.Errorf("unknown variant %s/%s", probe, name)
}

func regFile(core, fed []string) string {
	var sb strings.Builder
	sb.WriteString("// Code generated by /verif/cmd/check; DO NOT EDIT.\npackage probereg\n\nimport (\n\t\"verifsim/uni\"\n")
	if len(fed) > 0 {
		sb.WriteString("\t\"context\"\n\t\"github.com/99designs/gqlgen/graphql\"\n")
	}
	for _, v := range append(append([]string{}, core...), fed...) {
		fmt.Fprintf(&sb, "\t%s \"verifsim/probe/%s\"\n", v, v)
	}
	sb.WriteString(")\n\nvar _ uni.Variant\n\nfunc init() {\n")
	if len(core) > 0 {
		sb.WriteString("\tCore = []uni.Variant{\n")
		for _, v := range core {
			fmt.Fprintf(&sb, "\t\t{Name: %q, NewStub: %s.NewStub, Build: %s.Build, Models: %s.Models, Abstract: %s.Abstract, SetBlobHook: %s.SetBlobHook, SetMethodHook: %s.SetMethodHook},\n", v, v, v, v, v, v, v)
		}
		sb.WriteString("\t}\n")
	}
	if len(fed) > 0 {
		sb.WriteString("\tFed = []uni.FedVariant{\n")
		for _, v := range fed {
			fmt.Fprintf(&sb, "\t\t{Name: %q, NewStub: %s.NewStub, Build: func(stub any, hook func(ctx context.Context, typ, key string) error) graphql.ExecutableSchema {\n\t\t\treturn %s.Build(stub, hook)\n\t\t}},\n", v, v, v)
		}
		sb.WriteString("\t}\n")
	}
	sb.WriteString("}\n")
	return sb.String()
}

func (c *ctx) build() {
	c.bins = map[string]string{}
	scen := []string{c.spec.Scenario}
	for _, p := range c.spec.Parts {
		scen = append(scen, p.Scenario)
	}
	for _, sc := range scen {
		bin := filepath.Join(c.scratch, "bin", sc+".test")
		args := []string{"test", "-c", "-tags", "verif", "-o", bin}
		if c.spec.Race {
			args = append(args, "-race")
		}
		args = append(args, "./scenario/"+sc)
		c.must(c.mod, "build of scenario binary "+sc, "go", args...)
		c.bins[sc] = bin
	}
	c.use(c.spec.Scenario)
}

func (c *ctx) use(scenario string) {
	c.scen = scenario
	c.bin = c.bins[scenario]
}

type workerOut struct {
	results  []*runResult
	counters map[string]int
	openIdx  int // run index that was open when the process died, -1 otherwise
	stderr   string
	exitErr  error
}

func (c *ctx) simEnv(mode string, extra map[string]string) []string {
	e := []string{"SIM_MODE=" + mode, "SIM_PROPERTY=" + c.spec.ID, "SIM_TIER=" + c.tier, "SIM_MOD=" + c.mod,
		"GORACE=halt_on_error=1 exitcode=66", "TMPDIR=" + filepath.Join(c.scratch, "tmp")}
	for k, v := range c.spec.ExtraEnv {
		e = append(e, k+"="+v)
	}
	for k, v := range extra {
		e = append(e, k+"="+v)
	}
	return e
}

func parseOut(path string) (res []*runResult, counters map[string]int, open int) {
	open = -1
	counters = map[string]int{}
	f, err := os.Open(path)
	if err != nil {
		return
	}
	defer f.Close()
	sc := bufio.NewScanner(f)
	sc.Buffer(make([]byte, 1<<20), 64<<20)
	for sc.Scan() {
		var r runResult
		if err := json.Unmarshal(sc.Bytes(), &r); err != nil {
			continue
		}
		switch r.Type {
		case "begin":
			open = r.Idx
		case "end", "minimised":
			open = -1
			rr := r
			res = append(res, &rr)
		case "summary":
			for k, v := range r.Counters {
				counters[k] += v
			}
		}
	}
	return
}

func (c *ctx) worker(id int, from, to int, cpu int, budget time.Duration) *workerOut {
	return c.workerProc(id, id, from, to, cpu, budget)
}

// workerProc: proc is the per-process choice number handed to the worker (core.ProcChoice).
func (c *ctx) workerProc(id, proc int, from, to int, cpu int, budget time.Duration) *workerOut {
	outPath := filepath.Join(c.scratch, fmt.Sprintf("out-%d-%d.jsonl", id, from))
	os.Remove(outPath)
	env := c.simEnv("search", map[string]string{"SIM_SEED": strconv.FormatUint(c.seed, 10), "SIM_FROM": strconv.Itoa(from),
		"SIM_TO": strconv.Itoa(to), "SIM_OUT": outPath, "SIM_BUDGET": budget.String(), "GOMAXPROCS": strconv.Itoa(cpu), "SIM_PROC": strconv.Itoa(proc)})
	cmd := exec.Command(c.bin, "-test.run", "^TestSim$", "-test.timeout", "0")
	cmd.Dir = c.mod
	cmd.Env = append(append([]string{}, c.env...), env...)
	var stderr bytes.Buffer
	cmd.Stdout = &stderr
	cmd.Stderr = &stderr
	done := make(chan error, 1)
	if err := cmd.Start(); err != nil {
		return &workerOut{exitErr: err, openIdx: -1}
	}
	go func() { done <- cmd.Wait() }()
	var err error
	select {
	case err = <-done:
	case <-time.After(budget + 10*time.Minute):
		cmd.Process.Kill()
		<-done
		err = errors.New("watchdog: worker exceeded its budget by 10 minutes")
	}
	wo := &workerOut{exitErr: err, stderr: stderr.String()}
	wo.results, wo.counters, wo.openIdx = parseOut(outPath)
	return wo
}

// single runs the binary once in replay/minimise mode and returns the result.
func (c *ctx) single(mode string, rfPath string, extra map[string]string) (*runResult, string, error) {
	outPath := filepath.Join(c.scratch, fmt.Sprintf("single-%d.jsonl", time.Now().UnixNano()))
	m := map[string]string{"SIM_REPLAY": rfPath, "SIM_OUT": outPath, "GOMAXPROCS": strconv.Itoa(c.spec.Cpu)}
	for k, v := range extra {
		m[k] = v
	}
	cmd := exec.Command(c.bin, "-test.run", "^TestSim$", "-test.timeout", "0")
	cmd.Dir = c.mod
	cmd.Env = append(append([]string{}, c.env...), c.simEnv(mode, m)...)
	var stderr bytes.Buffer
	cmd.Stdout = &stderr
	cmd.Stderr = &stderr
	done := make(chan error, 1)
	if err := cmd.Start(); err != nil {
		return nil, "", err
	}
	go func() { done <- cmd.Wait() }()
	var err error
	select {
	case err = <-done:
	case <-time.After(6 * time.Minute):
		cmd.Process.Kill()
		<-done
		err = errors.New("watchdog: single run exceeded 6 minutes")
	}
	res, _, _ := parseOut(outPath)
	os.Remove(outPath)
	if len(res) == 0 {
		return nil, stderr.String(), err
	}
	return res[len(res)-1], stderr.String(), err
}

// processViolation turns a dead worker into a violation (race report, crash).
func processViolation(prop string, stderr string, exitErr error) *violation {
	v := &violation{Property: prop}
	switch {
	case strings.Contains(stderr, "WARNING: DATA RACE"):
		v.Invariant = "data-race"
		v.Site = raceSite(stderr)
		v.Detail = tail([]byte(stderr[strings.Index(stderr, "WARNING: DATA RACE"):]), 6000)
	case strings.Contains(stderr, "concurrent write to websocket connection"):
		v.Invariant = "concurrent-frame-write"
		v.Site = "gorilla"
		v.Detail = tail([]byte(stderr), 4000)
	case strings.Contains(stderr, "panic: memory runaway"):
		// the worker's own watchdog: the run allocated without bound
		v.Invariant = "memory-runaway"
		v.Site = "heap"
		v.Detail = tail([]byte(stderr[strings.Index(stderr, "panic: memory runaway"):]), 6000)
	case strings.Contains(stderr, "panic:") || strings.Contains(stderr, "fatal error:"):
		v.Invariant = "process-crash"
		v.Site = crashSite(stderr)
		v.Detail = tail([]byte(stderr), 6000)
	default:
		return nil
	}
	return v
}

func sutFrame(l string) string {
	l = strings.TrimSpace(l)
	if !(strings.HasPrefix(l, "github.com/99designs/gqlgen/") || strings.HasPrefix(l, "verifsim/probe/") || strings.HasPrefix(l, "github.com/vektah/gqlparser/") || strings.HasPrefix(l, "github.com/gorilla/websocket")) {
		return ""
	}
	if i := strings.LastIndex(l, "("); i > 0 {
		l = l[:i]
	}
	l = strings.ReplaceAll(l, "github.com/99designs/gqlgen/", "gqlgen/")
	if strings.HasPrefix(l, "verifsim/probe/") {
		rest := strings.TrimPrefix(l, "verifsim/probe/")
		if j := strings.IndexAny(rest, "./"); j >= 0 {
			l = "probe" + rest[j:]
		}
	}
	return l
}

func raceSite(stderr string) string {
	// first SUT frame of each of the two stacks
	var sites []string
	blocks := strings.Split(stderr[strings.Index(stderr, "WARNING: DATA RACE"):], "\n\n")
	for _, b := range blocks {
		lines := strings.Split(b, "\n")
		if len(lines) == 0 {
			continue
		}
		h := strings.TrimSpace(lines[0])
		if strings.HasPrefix(h, "WARNING: DATA RACE") && len(lines) > 1 {
			h = strings.TrimSpace(lines[1])
			lines = lines[1:]
		}
		if !(strings.HasPrefix(h, "Write at") || strings.HasPrefix(h, "Read at") || strings.HasPrefix(h, "Previous write at") || strings.HasPrefix(h, "Previous read at")) {
			continue
		}
		for _, l := range lines[1:] {
			// the first frame owned by gqlgen or generated code (not a dependency): the
			// dependency frames vary with timing, the gqlgen caller does not
			if s := sutFrame(l); s != "" && (strings.HasPrefix(s, "gqlgen/") || strings.HasPrefix(s, "probe")) {
				sites = append(sites, s)
				break
			}
		}
		if len(sites) == 2 {
			break
		}
	}
	sort.Strings(sites)
	if len(sites) == 0 {
		return "unknown"
	}
	if len(sites) == 2 && sites[0] == sites[1] {
		sites = sites[:1]
	}
	return strings.Join(sites, "+")
}

func crashSite(stderr string) string {
	i := strings.Index(stderr, "panic:")
	if i < 0 {
		i = strings.Index(stderr, "fatal error:")
	}
	for _, l := range strings.Split(stderr[i:], "\n") {
		if s := sutFrame(l); s != "" {
			return s
		}
	}
	return "unknown"
}

// rawTape is the PRNG stream of a run seed: replaying it reproduces the search-mode run.
func rawTape(runSeed uint64, n int) []uint32 {
	out := make([]uint32, n)
	state := runSeed
	for i := range out {
		state += 0x9e3779b97f4a7c15
		z := state
		z = (z ^ (z >> 30)) * 0xbf58476d1ce4e5b9
		z = (z ^ (z >> 27)) * 0x94d049bb133111eb
		z ^= z >> 31
		out[i] = uint32(z >> 32)
	}
	return out
}

func splitMix(x uint64) uint64 {
	x += 0x9e3779b97f4a7c15
	z := x
	z = (z ^ (z >> 30)) * 0xbf58476d1ce4e5b9
	z = (z ^ (z >> 27)) * 0x94d049bb133111eb
	return z ^ (z >> 31)
}

func runSeed(seed uint64, idx int) uint64 {
	return splitMix(splitMix(seed) ^ uint64(idx)*0x2545f4914f6cdd1d)
}

func writeJSON(path string, v any) {
	b, err := json.MarshalIndent(v, "", " ")
	if err != nil {
		die(2, "marshal: %v", err)
	}
	os.MkdirAll(filepath.Dir(path), 0o755)
	if err := os.WriteFile(path, append(b, '\n'), 0o644); err != nil {
		die(2, "write %s: %v", path, err)
	}
}

func shortHash(s string) string {
	h := uint64(14695981039346656037)
	for i := 0; i < len(s); i++ {
		h ^= uint64(s[i])
		h *= 1099511628211
	}
	return fmt.Sprintf("%012x", h&0xffffffffffff)
}

// confirm minimises (where possible) and replays a violation; returns the replay path, or an
// error when the violation does not reproduce (infrastructure problem).
func (c *ctx) confirm(r *runResult, processLevel bool) (string, error) {
	fp := r.Violation.fingerprint()
	rf := &replayFile{Property: c.spec.ID, Scenario: c.scen, Tier: c.tier, Seed: r.Seed, RunIdx: r.Idx, Tape: r.Tape,
		Fingerprint: fp, Violation: r.Violation, Trace: r.Trace, ProcessLvl: processLevel, Env: c.spec.ExtraEnv, Proc: r.Proc}
	path := filepath.Join(outDir, "replays", c.spec.ID+"-"+shortHash(fp)+".json")
	tmp := filepath.Join(c.scratch, "replay-"+shortHash(fp)+".json")
	writeJSON(tmp, rf)
	if !processLevel {
		m, _, _ := c.single("minimise", tmp, nil)
		if m != nil && m.Violation != nil && m.Violation.fingerprint() == fp {
			rf.Minimised = m.Tape
			rf.Violation = m.Violation
		}
		// a minimiser process that dies (a race report, a crash) just means: no minimisation;
		// the full tape is replayed below
		writeJSON(tmp, rf)
		// replay in a fresh process
		rr, stderr, rerr := c.single("replay", tmp, nil)
		if (rr == nil || rr.Violation == nil) && rf.Minimised != nil {
			// the minimiser runs its candidates in ONE process; a tape it accepted may depend on
			// state earlier candidates left in that process (a sync.Pool, a global): fall back
			// to the full recorded tape, which is what the search run executed
			rf.Minimised = nil
			writeJSON(tmp, rf)
			rr, stderr, rerr = c.single("replay", tmp, nil)
		}
		same := func(x *runResult) bool {
			return x != nil && x.Violation != nil && x.Violation.Property == r.Violation.Property && x.Violation.Invariant == r.Violation.Invariant
		}
		if !same(rr) && processViolation(c.spec.ID, stderr, rerr) == nil {
			// code that races below the seams (two simultaneously launched requests meeting
			// inside a library, say) makes the outcome depend on real thread timing: try the
			// recorded tape a few more times at different parallelism before giving up
			procs := []string{"16", "4", "1", "8", "2"}
			for attempt := 0; attempt < 15 && !same(rr); attempt++ {
				rr, stderr, rerr = c.single("replay", tmp, map[string]string{"GOMAXPROCS": procs[attempt%len(procs)]})
				if same(rr) {
					rf.TimingDependent = true
					rf.ReplayAttempts = 40
				}
			}
		}
		sameInvariant := same(rr)
		if sameInvariant && rr.Violation.fingerprint() != fp {
			// same invariant, different site label: the defect is schedule-dependent below the
			// seams (e.g. which of two racing elements shows the wrong value); still a
			// reproduced violation of the same invariant
			rf.Trace = rr.Trace
			writeJSON(path, rf)
			return path, nil
		}
		if rr == nil || rr.Violation == nil || rr.Violation.fingerprint() != fp {
			// the replay may die of a process-level violation of the same run (race detector,
			// crash): that confirms a violation of the property too
			if pv := processViolation(c.spec.ID, stderr, rerr); pv != nil && rerr != nil {
				rf.ProcessLvl = true
				writeJSON(path, rf)
				return path, nil
			}
			return "", fmt.Errorf("replay of %s did not reproduce (got %+v)\n%s", fp, rr, tail([]byte(stderr), 2000))
		}
		rf.Trace = rr.Trace
		rf.Violation = rr.Violation
	} else {
		// process-level: subprocess delta debugging with a small budget
		test := func(t []uint32) bool {
			cand := *rf
			cand.Minimised = t
			p := filepath.Join(c.scratch, "cand.json")
			writeJSON(p, &cand)
			// whether the race detector sees a given pair of accesses depends on real
			// thread timing: a candidate counts as reproducing if any of a few attempts does
			for attempt := 0; attempt < 6; attempt++ {
				_, stderr, err := c.single("replay", p, map[string]string{"GOMAXPROCS": "8"})
				if err == nil {
					continue
				}
				if v := processViolation(c.spec.ID, stderr, err); v != nil && v.fingerprint() == fp {
					return true
				}
			}
			return false
		}
		if !test(rf.Tape) {
			return "", fmt.Errorf("process-level violation %s did not reproduce from its tape", fp)
		}
		cur := rf.Tape
		budget := 40
		start := time.Now()
		// truncate tail
		for n := len(cur) / 2; n >= 1 && budget > 0 && time.Since(start) < 3*time.Minute; n /= 2 {
			for len(cur) > n && budget > 0 {
				budget--
				cand := append([]uint32(nil), cur[:len(cur)-n]...)
				if test(cand) {
					cur = cand
				} else {
					break
				}
			}
		}
		// zero chunks
		for size := len(cur) / 2; size >= 1 && budget > 0 && time.Since(start) < 3*time.Minute; size /= 2 {
			for i := 0; i+size <= len(cur) && budget > 0; i += size {
				cand := append([]uint32(nil), cur...)
				nz := false
				for j := i; j < i+size; j++ {
					if cand[j] != 0 {
						nz = true
					}
					cand[j] = 0
				}
				if !nz {
					continue
				}
				budget--
				if test(cand) {
					cur = cand
				}
			}
		}
		rf.Minimised = cur
	}
	writeJSON(path, rf)
	return path, nil
}

type evidence struct {
	PropertyID  string         `json:"property_id"`
	Tier        string         `json:"tier"`
	Seed        int64          `json:"seed"`
	Level       string         `json:"level"`
	Coverage    map[string]any `json:"coverage"`
	Assumptions []string       `json:"assumptions"`
	WallS       float64        `json:"wall_s"`
	Violations  int            `json:"violations"`
}

func main() {
	replay := flag.String("replay", "", "replay file to re-run")
	seedFlag := flag.Int64("seed", -1, "batch seed (default $VERIF_SEED or 1)")
	keep := flag.Bool("keep", false, "keep the scratch directory")
	runsFlag := flag.Int("runs", 0, "override number of runs")
	selfN := flag.Int("selftest", 0, "determinism self-test only: run this many indices at GOMAXPROCS 1, 4, 16 and 4 again and compare event-log hashes")
	flag.Parse()
	if flag.NArg() < 1 {
		die(2, "usage: check [-replay file] [-seed N] <property> [quick|thorough]")
	}
	id := flag.Arg(0)
	tier := "quick"
	if flag.NArg() > 1 {
		tier = flag.Arg(1)
	}
	if t := os.Getenv("VERIF_TIER"); t == "quick" || t == "thorough" {
		tier = t
	}
	spec := specs[id]
	if spec == nil {
		die(2, "unknown property %s", id)
	}
	var seed uint64 = 1
	if s := os.Getenv("VERIF_SEED"); s != "" {
		if v, err := strconv.ParseInt(s, 10, 64); err == nil {
			seed = uint64(v)
		}
	}
	if *seedFlag >= 0 {
		seed = uint64(*seedFlag)
	}
	c := &ctx{spec: spec, tier: tier, seed: seed, env: goEnv(), t0: time.Now()}
	c.ts = spec.Quick
	if tier == "thorough" {
		c.ts = spec.Thorough
	}
	if *runsFlag > 0 {
		c.ts.Runs = *runsFlag
	}
	if spec.Cpu == 0 {
		spec.Cpu = 4
	}
	c.selfN = *selfN
	code := c.mainFlow(*replay, *keep)
	os.Exit(code)
}

func (c *ctx) cleanup(keep bool) {
	if c.scratch != "" && !keep {
		os.RemoveAll(c.scratch)
	}
}

func (c *ctx) mainFlow(replay string, keep bool) int {
	defer c.cleanup(keep)
	c.prepare()
	os.MkdirAll(filepath.Join(c.scratch, "tmp"), 0o755)
	c.build()
	c.buildS = time.Since(c.t0).Seconds()
	fmt.Printf("check %s %s: scratch built in %.1fs (seed %d)\n", c.spec.ID, c.tier, c.buildS, c.seed)

	if replay != "" {
		return c.replayFlow(replay)
	}

	if c.selfN > 0 {
		code := c.determinismN(c.selfN, []int{1, 4, 16, 4})
		for _, p := range c.spec.Parts {
			if code == 0 {
				c.use(p.Scenario)
				code = c.determinismN(c.selfN, []int{1, 4, 16, 4})
			}
		}
		c.use(c.spec.Scenario)
		if code == 0 {
			fmt.Printf("selftest %s: %d runs x GOMAXPROCS {1,4,16,4}: identical event logs\n", c.spec.ID, c.selfN)
		}
		return code
	}

	evals := 0
	sigs := map[string]bool{}
	counters := map[string]int{}
	var simNS int64
	var samples []any
	nviol := map[string]int{}
	exit := 0
	var lines []string
	var knownHit []string
	unknownViol := 0
	nfp := 0
	workers := 16
	var searchS float64
	runPart := func(scenario string, runs int, budget time.Duration, prefix string) int {
		c.use(scenario)
		nsamp := 0
		workers = 16
		if runs < workers*4 {
			workers = 1 + runs/8
		}
		per := (runs + workers - 1) / workers
		outs := make([]*workerOut, workers)
		var wg sync.WaitGroup
		searchStart := time.Now()
		for i := 0; i < workers; i++ {
			wg.Add(1)
			go func(i int) {
				defer wg.Done()
				from, to := i*per, (i+1)*per
				if to > runs {
					to = runs
				}
				// a worker that dies (race, crash) is restarted after the offending index
				agg := &workerOut{counters: map[string]int{}, openIdx: -1}
				for from < to {
					left := budget - time.Since(searchStart)
					if left < 5*time.Second {
						break
					}
					upTo := to
					// fresh worker processes at fixed run indices: process-global state that is
					// built once per process (a sync.Once, a pool) is "cold" there (ChunkRuns), and
					// in any case no worker lives for more than 10000 runs (race-detector builds of
					// the session scenarios grow by tens of KB per run)
					chunk := 10000
					if c.spec.ChunkRuns > 0 && scenario == c.spec.Scenario {
						chunk = c.spec.ChunkRuns
					}
					if b := (from/chunk + 1) * chunk; b < upTo {
						upTo = b
					}
					wo := c.worker(i, from, upTo, c.spec.Cpu, left)
					agg.results = append(agg.results, wo.results...)
					for k, v := range wo.counters {
						agg.counters[k] += v
					}
					if wo.openIdx >= 0 {
						v := processViolation(c.spec.ID, wo.stderr, wo.exitErr)
						if v == nil {
							agg.exitErr = fmt.Errorf("worker %d died at run %d without a recognisable report: %v\n%s", i, wo.openIdx, wo.exitErr, tail([]byte(wo.stderr), 3000))
							break
						}
						rs := runSeed(c.seed, wo.openIdx)
						agg.results = append(agg.results, &runResult{Type: "dead", Idx: wo.openIdx, Seed: rs, Violation: v, Tape: rawTape(rs, 6000), Proc: i})
						from = wo.openIdx + 1
						continue
					}
					if wo.exitErr != nil {
						agg.exitErr = fmt.Errorf("worker %d failed: %v\n%s", i, wo.exitErr, tail([]byte(wo.stderr), 3000))
						break
					}
					if upTo < to {
						from = upTo
						continue
					}
					break
				}
				outs[i] = agg
			}(i)
		}
		wg.Wait()
		searchS += time.Since(searchStart).Seconds()

		// aggregate
		byFP := map[string]*runResult{}
		var fpOrder []string
		for _, wo := range outs {
			if wo == nil {
				continue
			}
			if wo.exitErr != nil {
				fmt.Fprintln(os.Stderr, wo.exitErr)
				return 2
			}
			for k, v := range wo.counters {
				counters[prefix+k] += v
			}
			for _, r := range wo.results {
				evals++
				simNS += r.SimNS
				if r.Nontrivial && r.Sig != "" {
					sigs[prefix+r.Sig] = true
				}
				if r.Sample != nil && nsamp < 2 {
					nsamp++
					var s any
					json.Unmarshal(r.Sample, &s)
					samples = append(samples, s)
				}
				if r.Violation != nil {
					fp := r.Violation.fingerprint()
					nviol[fp]++
					if old, ok := byFP[fp]; !ok || r.Idx < old.Idx {
						if !ok {
							fpOrder = append(fpOrder, fp)
						}
						byFP[fp] = r
					}
				}
			}
		}
		sort.Strings(fpOrder)

		known := loadKnown()
		partUnknown := 0
		var unconfirmed []string
		for _, fp := range fpOrder {
			r := byFP[fp]
			path, err := c.confirm(r, r.Type == "dead")
			if err != nil {
				// observed during the search but not reproduced from its tape: never reported
				// as a VIOLATION (there is no replay file to hand out); it makes the check
				// exit 2 unless another violation of this run was confirmed
				unconfirmed = append(unconfirmed, fmt.Sprintf("%v", err))
				continue
			}
			isKnown := false
			for _, k := range known.Findings {
				if k.Property == c.spec.ID && matchFP(k.Fingerprint, fp) {
					isKnown = true
					lines = append(lines, fmt.Sprintf("KNOWN-FINDING: property=%s %s [%s, %d runs, replay=%s]", c.spec.ID, k.WhatFails, fp, nviol[fp], path))
					knownHit = append(knownHit, fp)
				}
			}
			if !isKnown {
				unknownViol++
				partUnknown++
				exit = 1
				lines = append(lines, fmt.Sprintf("VIOLATION property=%s replay=%s", c.spec.ID, path))
				lines = append(lines, fmt.Sprintf("  fingerprint %s (%d runs); %s", fp, nviol[fp], firstLine(r.Violation.Detail)))
			}
		}

		for _, u := range unconfirmed {
			fmt.Fprintf(os.Stderr, "check: UNCONFIRMED %s\n", firstLine(u))
		}
		if len(unconfirmed) > 0 && partUnknown == 0 {
			fmt.Fprintf(os.Stderr, "check: %s\n", unconfirmed[0])
			return 2
		}

		// determinism smoke test: same seeds at two GOMAXPROCS values must give identical logs. It
		// is run when no new violation was found: a tree that violates the property is often
		// schedule-dependent below the seams (that is the defect), and its violations have been
		// confirmed by replay one by one above.
		if partUnknown == 0 {
			if code := c.determinism(); code != 0 {
				return code
			}
		}
		nfp += len(fpOrder)
		return 0
	}
	mainPct := 100
	for _, p := range c.spec.Parts {
		mainPct -= p.Percent
	}
	if code := runPart(c.spec.Scenario, c.ts.Runs*mainPct/100, c.ts.Budget*time.Duration(mainPct)/100, ""); code != 0 {
		return code
	}
	for _, p := range c.spec.Parts {
		pb := c.ts.Budget * time.Duration(p.Percent) / 100
		if pb < 25*time.Second {
			pb = 25 * time.Second // (workers stop when less than 5 s of their budget are left)
		}
		if code := runPart(p.Scenario, c.ts.Runs*p.Percent/100, pb, p.Scenario+":"); code != 0 {
			return code
		}
	}
	c.use(c.spec.Scenario)
	wall := time.Since(c.t0).Seconds()
	if len(samples) == 0 {
		samples = append(samples, map[string]any{"note": "no sample recorded"})
	}
	cov := map[string]any{
		"evaluations":            evals,
		"distinct_nontrivial":    len(sigs),
		"rule":                   c.spec.Rule,
		"samples":                samples,
		"runs_per_hour":          int(float64(evals) / searchS * 3600),
		"seeds_per_hour":         int(float64(evals) / searchS * 3600),
		"search_wall_s":          searchS,
		"build_wall_s":           c.buildS,
		"simulated_seconds":      float64(simNS) / 1e9,
		"counters":               counters,
		"fault_kinds":            c.spec.Faults,
		"instrumented_sites":     c.sites,
		"real_components":        c.spec.Real,
		"stubbed_components":     c.spec.Stubbed,
		"variants":               append(append([]string{}, c.ts.Variants...), c.ts.Fed...),
		"violation_fingerprints": nviol,
		"known_findings_hit":     knownHit,
		"workers":                workers,
		"gomaxprocs_per_worker":  c.spec.Cpu,
		"race_detector":          c.spec.Race,
	}
	ev := &evidence{PropertyID: c.spec.ID, Tier: c.tier, Seed: int64(c.seed), Level: c.spec.Level, Coverage: cov, Assumptions: c.spec.Assume, WallS: wall, Violations: unknownViol}
	writeJSON(filepath.Join(outDir, "evidence", c.spec.ID+".json"), ev)
	for _, l := range lines {
		fmt.Println(l)
	}
	fmt.Printf("check %s %s: %d runs (%d distinct non-trivial), %.0f runs/h, %d violation fingerprints (%d known), wall %.1fs\n",
		c.spec.ID, c.tier, evals, len(sigs), float64(evals)/searchS*3600, nfp, len(knownHit), wall)
	if evals == 0 {
		fmt.Fprintln(os.Stderr, "check: no run was executed")
		return 2
	}
	return exit
}

func firstLine(s string) string {
	if i := strings.Index(s, "\n"); i >= 0 {
		s = s[:i]
	}
	if len(s) > 300 {
		s = s[:300] + "…"
	}
	return s
}

func (c *ctx) determinism() int {
	n := 24
	if c.spec.SmokeRuns > 0 {
		n = c.spec.SmokeRuns
	}
	if c.ts.Runs < n {
		n = c.ts.Runs
	}
	return c.determinismN(n, []int{1, 16})
}

func (c *ctx) determinismN(n int, cpus []int) int {
	var first map[int]string
	for rep, cpu := range cpus {
		// the same per-process choice number for every repetition (1: exercises the settings that
		// change process-global state)
		wo := c.workerProc(100+rep, 1, 0, n, cpu, 10*time.Minute)
		if wo.openIdx >= 0 {
			// a process-level violation inside the smoke sample is handled by the search phase
			return 0
		}
		if wo.exitErr != nil {
			fmt.Fprintf(os.Stderr, "check: determinism run failed: %v\n%s\n", wo.exitErr, tail([]byte(wo.stderr), 3000))
			return 2
		}
		cur := map[int]string{}
		for _, r := range wo.results {
			fp := ""
			if r.Violation != nil {
				fp = r.Violation.fingerprint()
			}
			if fp != "" {
				// a run that violates the property may legitimately be schedule-dependent
				// below the seams (that is often the defect itself): the search phase
				// reports it; only violation-free runs are compared bit for bit
				cur[r.Idx] = "violation"
				continue
			}
			cur[r.Idx] = r.LogHash + "|" + r.Sig
		}
		if first == nil {
			first = cur
			continue
		}
		for idx, h := range first {
			if h == "violation" || cur[idx] == "violation" {
				continue
			}
			if cur[idx] != h {
				fmt.Fprintf(os.Stderr, "check: determinism self-test failed for %s run %d: GOMAXPROCS=%d gives %s, GOMAXPROCS=%d gives %s\n", c.spec.ID, idx, cpus[0], h, cpu, cur[idx])
				return 2
			}
		}
	}
	return 0
}

func (c *ctx) replayFlow(path string) int {
	b, err := os.ReadFile(path)
	if err != nil {
		die(2, "%v", err)
	}
	var rf replayFile
	if err := json.Unmarshal(b, &rf); err != nil {
		die(2, "%v", err)
	}
	if rf.Scenario != "" && c.bins[rf.Scenario] != "" {
		c.use(rf.Scenario)
	}
	rr, stderr, err := c.single("replay", path, nil)
	if rf.TimingDependent {
		procs := []string{"16", "4", "1", "8", "2"}
		for attempt := 0; attempt < rf.ReplayAttempts && (rr == nil || rr.Violation == nil) && err == nil; attempt++ {
			rr, stderr, err = c.single("replay", path, map[string]string{"GOMAXPROCS": procs[attempt%len(procs)]})
		}
	}
	var v *violation
	if rr != nil {
		v = rr.Violation
	}
	if v == nil && err != nil {
		v = processViolation(c.spec.ID, stderr, err)
	}
	if v == nil {
		fmt.Printf("replay %s: no violation (expected %s)\n", path, rf.Fingerprint)
		return 0
	}
	fmt.Printf("replay %s: %s\n%s\n", path, v.fingerprint(), v.Detail)
	if rr != nil {
		for _, l := range rr.Trace {
			fmt.Println("  " + l)
		}
	}
	if v.fingerprint() == rf.Fingerprint {
		fmt.Printf("VIOLATION property=%s replay=%s\n", c.spec.ID, path)
		return 1
	}
	fmt.Printf("replay produced a different fingerprint than recorded (%s)\n", rf.Fingerprint)
	return 1
}
