package main

import "time"

var realExec = []string{
	"executor generated at check time from /repo's codegen/*.gotpl (api.Generate + stubgen)",
	"graphql/* runtime (FieldSet, contexts, errors, collectFields)", "graphql/executor", "gqlparser",
}
var stubExec = []string{"resolvers/directives/custom scalar (universal resolver driven by the plan)", "goroutine release order (scheduler)", "clock (synctest)", "no transport: the response function is driven directly"}

var allCore = []string{"v0", "v1", "v2", "v3", "v4", "v5", "v6", "v7"}

var specs = map[string]*propSpec{
	"C01": {
		ID: "C01", Scenario: "execsim", Race: false, Level: "exploration", Cpu: 2,
		Quick:    tierSpec{Runs: 60000, Budget: 60 * time.Second, Variants: allCore},
		Thorough: tierSpec{Runs: 3000000, Budget: 15 * time.Minute, Variants: allCore},
		Real:     realExec, Stubbed: stubExec,
		Rule: "one run = one (variant, operation, variables, plan, release discipline) executed in a synctest bubble with every resolver/directive call parked and released by the seeded scheduler; operations come from the hand-written corpus or the grammar generator (validated by gqlparser); the response is compared with the reference executor (data with key order, error multiset by path and class). non-trivial = at least two calls were parked together at some quiescent point or the plan produced at least one error; distinct = distinct hash of (variant, operation, plan parameters, released-key sequence)",
		Faults: "resolver outcome plan: value/null/error per position, directive pass/block/error/replace/pass-then-error",
		Assume: []string{"probe schemas, not random schemas (programs dimension narrowed, see DESIGN 5.1)", "model parameters P1/P2 (Go nilability of positions; nil slice at non-null list is [])", "gqlgen-authored error messages are matched by path only"},
	},
	"C06": {
		ID: "C06", Scenario: "execsim", Race: true, Level: "exploration", Cpu: 4,
		Quick:    tierSpec{Runs: 8000, Budget: 75 * time.Second, Variants: []string{"v0", "v3", "v4", "v7"}},
		Thorough: tierSpec{Runs: 400000, Budget: 15 * time.Minute, Variants: allCore},
		Real:     realExec, Stubbed: stubExec,
		Rule: "one run = one (variant, operation, plan) executed under six schedules (first, last, deepest-first, 2 seeded one-at-a-time, 1 seeded burst releasing several calls at once) in one bubble of a -race binary; data and error multiset must be identical across schedules and equal to the reference; for mutations the parked set must stay inside one root field and roots must start in document order. non-trivial = at least two calls parked together; distinct = hash of (variant, operation, plan, the six released-key sequences)",
		Faults: "adversarial completion orders; burst releases for the race detector",
		Assume: []string{"interleavings are explored at the granularity of user callbacks (resolver/directive calls); finer interference is left to the race detector under burst releases"},
	},
	"C04": {
		ID: "C04", Scenario: "execsim", Level: "fault_enumeration", Cpu: 2,
		Quick:    tierSpec{Runs: 6000, Budget: 75 * time.Second, Variants: []string{"v0", "v3", "v4"}},
		Thorough: tierSpec{Runs: 300000, Budget: 15 * time.Minute, Variants: []string{"v0", "v1", "v2", "v3", "v4", "v6"}},
		Real:     append(append([]string{}, realExec...), "graphql/handler.Server + transport.POST (one third of the executions, and every serialisation-panic execution)"), Stubbed: stubExec,
		Rule: "one run = one (variant, operation, base plan) on one long-lived server: a fault-free pass enumerates the fault points (every resolver call, every directive call, every custom-scalar value), then EVERY single point x {error, panic} is injected in turn (marshalers: panic only, through handler.Server+POST), then three seeded multi-fault sets, then a fault-free request on the same server; each execution is compared with the reference executor under the same overlay and the RecoverFunc count with the number of injected panics; an unrecovered panic kills the worker and is attributed to the run. non-trivial = the operation has at least one fault point; distinct = hash of (variant, operation, base plan)",
		Faults: "resolver error/panic, directive error/panic, argument unmarshaler error/panic (custom scalar), marshaler panic; contexts: sequential field, concurrent sibling, list element goroutine, deferred group; worker_limit 0/1/2",
		Assume: []string{"subscription-event context is exercised by the websocket scenario (C11), not here", "HTTP status of a serialisation panic is not asserted (statement does not fix it)"},
	},
	"C05": {
		ID: "C05", Scenario: "execsim", Level: "fault_enumeration", Cpu: 2,
		Quick:    tierSpec{Runs: 8000, Budget: 75 * time.Second, Variants: []string{"v0", "v3", "v4", "v5"}},
		Thorough: tierSpec{Runs: 400000, Budget: 15 * time.Minute, Variants: []string{"v0", "v1", "v2", "v3", "v4", "v5", "v6"}},
		Real:     append(append([]string{}, realExec...), "graphql/handler.Server + transport.POST for one third of the executions"), Stubbed: stubExec,
		Rule: "one run = one (variant incl. worker_limit 0/1/2/8, operation with list fan-out and/or @defer, plan); a run without cancellation counts the K quiescent points, then the request context is cancelled at EVERY k in 0..K+1 (one execution each) under a seeded release order, resolvers either ignoring cancellation or returning ctx.Err(); transports: response function drained, response function read once (single-payload transport), handler.Server+POST. Oracle: once nothing is parked the request must be finished (else 'stuck' with the blocked stack); after the end and cancellation the bubble must contain no goroutine created by gqlgen/generated code. non-trivial = K >= 2; distinct = hash of (variant, operation, plan)",
		Faults: "context cancellation at every quiescent point; resolvers ignoring or honouring cancellation; single-payload consumption of deferred operations",
		Assume: []string{"SSE, multipart/mixed and websocket end-of-life are covered by the stream and websocket scenarios", "resolvers return promptly once released (premise of the property)"},
	},
	"C13": {
		ID: "C13", Scenario: "execsim", Level: "exploration", Cpu: 2,
		Quick:    tierSpec{Runs: 40000, Budget: 75 * time.Second, Variants: []string{"v0", "v1", "v2", "v3"}},
		Thorough: tierSpec{Runs: 2000000, Budget: 15 * time.Minute, Variants: allCore},
		Real:     realExec, Stubbed: stubExec,
		Rule: "one run = one (variant, operation with @defer on a tape-chosen subset of fragments - nested, in lists, if:true/false/variable, shared/distinct/absent labels -, plan incl. failures inside groups, group completion order chosen by the scheduler). Oracle: payload sequence discipline (no path on the first, hasNext, termination, each (path,label) once, each field once), arrival-order applicability of every path, merged data == reference result (propagation stopping at objects whose group came back null, membership read from the payloads), no error the plain execution would not report. non-trivial = at least one incremental payload; distinct = hash of (variant, operation, plan, released-key sequence)",
		Faults: "resolver null/error inside and outside deferred groups; directive block/error; group completion orders",
		Assume: []string{"which fields gqlgen chooses to defer is not predicted (read from payloads)", "comparison of merged data is key-order-insensitive (order is C01's concern)"},
	},
	"C03": {
		ID: "C03", Scenario: "gatesim", Race: true, Level: "exploration", Cpu: 4,
		Quick:    tierSpec{Runs: 12000, Budget: 75 * time.Second, Variants: []string{"v0"}},
		Thorough: tierSpec{Runs: 600000, Budget: 15 * time.Minute, Variants: []string{"v0", "v1", "v2"}},
		Real:     []string{"graphql/executor (gates, parseQuery, extension folding)", "graphql/handler.Server + transport.POST (half of the histories)", "graphql/handler/lru", "generated executor (hooks reach resolvers through it)", "gqlparser validator (global rule list included)"},
		Stubbed:  []string{"extensions (63 instrumented hook-subset types)", "query cache (harness cache with park points, eviction) when selected", "resolvers/directives (universal resolver)", "request arrival and overlap (scheduler)"},
		Rule: "one run = one history of up to 8 (thorough 12) requests drawn with repetition from a working set of valid corpus documents and systematically invalidated variants (parse, validation, operation selection, variable coercion), against one executor or handler.Server with 0-4 instrumented extensions (each a seeded non-empty subset of the six hook interfaces, some rejecting in the parameter/context mutators), cache in {none, harness cache, parking harness cache with eviction, lru 1..3}, suggestions on/off; requests are launched sequentially, overlapped or as simultaneous pairs, and every resolver / cache call parks at the scheduler. Oracle: verdict per request from gqlparser alone; rejected requests have no interceptor/directive/resolver event and errors-only responses; accepted ones match the reference executor and the lifecycle grammar (registration order, first-registered outermost, exactly once per operation/response/root field/field). Race detector on. non-trivial = at least two requests or one extension; distinct = hash of the history, configuration and event log",
		Faults: "systematically invalidated documents, rejecting extensions, cache eviction at any quiescent point, overlapping and simultaneous requests",
		Assume: []string{"subscriptions are not part of these histories (their gate is checked by the websocket scenario)", "the semantic window between RemoveRule and ReplaceRule has no seam; it is covered only through the race detector"},
	},
	"C15": {
		ID: "C15", Scenario: "apqsim", Race: true, Level: "exploration", Cpu: 4,
		Quick:    tierSpec{Runs: 20000, Budget: 75 * time.Second, Variants: []string{"v0"}},
		Thorough: tierSpec{Runs: 1000000, Budget: 15 * time.Minute, Variants: []string{"v0", "v1"}},
		Real:     []string{"graphql/handler/extension.AutomaticPersistedQuery", "graphql/handler.Server with transport.GET and transport.POST", "graphql/executor", "graphql/handler/lru (one third of the histories)", "generated executor"},
		Stubbed:  []string{"APQ cache: harness cache that parks in Get/Add, evicts any entry at any quiescent point and may drop an Add (two thirds of the histories)", "resolvers (deterministic, not parked)", "request arrival/overlap (scheduler)"},
		Rule: "one run = one history of up to 10 (thorough 30; overlapped ones at most 12) requests over 4 query texts x {text only, text+correct hash, text+hash of another text, hash only, malformed extension, wrong version, never-registered hash}, over POST and GET, hash-only requests biased towards hashes sent earlier; sequential histories are checked step by step against the model (registered set; hash-only may execute exactly the registered text or answer PersistedQueryNotFound), overlapped ones (requests interleaved at the parking cache) are recorded as invoke/return pairs stamped with scheduler steps and checked with porcupine; after every step every cache entry must satisfy sha256(value)==key. non-trivial = history of at least two requests; distinct = hash of (cache kind, history with outcomes, event log)",
		Faults: "cache eviction at any quiescent point, dropped Add, interleaving of concurrent requests inside Cache.Get/Add, mismatching and malformed client input",
		Assume: []string{"porcupine Unknown (30 s timeout) would be reported as infrastructure trouble, never as a violation"},
	},
	"C12": {
		ID: "C12", Scenario: "streamsim", Race: true, Level: "exploration", Cpu: 4, Mutex: true,
		Quick:    tierSpec{Runs: 12000, Budget: 75 * time.Second, Variants: []string{"v0"}},
		Thorough: tierSpec{Runs: 600000, Budget: 15 * time.Minute, Variants: []string{"v0", "v1", "v3"}},
		Real:     []string{"graphql/handler/transport SSE and MultipartMixed (with sync.Mutex rewritten to a durable channel mutex in the scratch copy)", "graphql/handler.Server", "graphql/executor", "generated executor incl. @defer machinery", "time.Ticker / timers on synctest's fake clock"},
		Stubbed:  []string{"http.ResponseWriter+Flusher (simhttp.Writer: every Write parks, may be split at a seeded byte, may fail)", "request context (client disconnect)", "subscription source channel (harness emits)", "resolvers (universal resolver, parked)", "net/http server loop (ServeHTTP is called directly)"},
		Rule: "one run = one streamed response: SSE (subscription with 0-6 emissions, query, @defer query, or a gate error) with KeepAlivePingInterval in {0, 2us, 1ms, 10s}, or multipart/mixed (@defer corpus) with DeliveryTimeout in {1, 5, 50 ms}; the scheduler interleaves resolver releases, emissions, clock advances from a menu around the interval (I-1us, I, I+1us, I/2, 1us; never while a ticker goroutine is parked, so that no tick queues up), write completions (each Write may be split at a seeded byte and parked half-way) and, in a quarter of the runs, a client disconnect. Oracle: no Write enters while another is in progress; strict SSE parse / mime/multipart parse with valid JSON in every event/part; payloads equal, exactly once and in order, those recorded by an innermost response interceptor; exactly one complete event / closing delimiter, last; after a disconnect only prefix properties. non-trivial = at least one payload was produced; distinct = hash of (transport, interval, operation, emissions, event log)",
		Faults: "slow client (split+parked writes), client disconnect (write failure + context cancellation) at a seeded point, keep-alive and flush ticks landing before/at/after payload production",
		Assume: []string{"pings written after the handler returned are not judged (outside the statement)", "Flush itself is instantaneous"},
	},
	"C11": {
		ID: "C11", Scenario: "wssim", Race: true, Level: "exploration", Cpu: 4, Mutex: true,
		Quick:    tierSpec{Runs: 8000, Budget: 75 * time.Second, Variants: []string{"v0"}},
		Thorough: tierSpec{Runs: 400000, Budget: 15 * time.Minute, Variants: []string{"v0", "v1", "v3"}},
		Real:     []string{"graphql/handler/transport Websocket (both subprotocols, init, keep-alive/ping tickers, closeOnCancel; sync.Mutex rewritten to a durable channel mutex in the scratch copy)", "gorilla/websocket server and client", "graphql/handler.Server, graphql/executor, generated executor (subscription path)", "timers and read deadlines on synctest's fake clock over net.Pipe"},
		Stubbed:  []string{"network: net.Pipe whose server half parks/fails writes and records frames", "InitFunc/CloseFunc/ErrorFunc callbacks", "subscription sources (harness emits unique increasing values, ends, reports AddSubscriptionError)", "resolvers (universal resolver)", "net/http server loop (request read from the pipe, ServeHTTP called directly)"},
		Rule: "one run = one websocket session under graphql-ws or graphql-transport-ws with seeded InitFunc behaviour (none/accept/accept+payload/reject/stall), InitTimeout, keep-alive/pong/ping intervals, MissingPongOk; up to 12 (thorough 30) client events from {init, start(subscription ticks/events, query, mutation, invalid document, unparsable), stop, ping/pong or stop-unknown, invalid JSON, unknown type, second init, binary frame, terminate/close frame/abrupt close} interleaved with server-side events {emit, end, end with AddSubscriptionError, clock advance, server context cancel with/without close reason, server write completion or failure} and settle checkpoints. Monitor: nothing executes before the init handshake was accepted; per id results in emission order without duplicates, no result after error, at most one complete, nothing after complete; at settled points every received emission has its data frame, stopped/ended operations are terminated and their contexts cancelled; after the end every operation context is cancelled, no connection goroutine remains, CloseFunc fired at most once and exactly once for acknowledged connections, no frame after the close frame, no overlapping conn.Write. non-trivial = acknowledged session with at least one operation; distinct = hash of (protocol, init mode, client events, event log)",
		Faults: "abrupt client close, close frames, protocol violations, server write failures, init rejection/stall/timeout, server shutdown, keep-alive ticks and read deadlines firing between events",
		Assume: []string{"ids are unique per connection (the statement does not say what a server owes a client that reuses an active id)", "payload:null start messages are C10's concern"},
	},
	"C20": {
		ID: "C20", Scenario: "fedsim", Race: true, Level: "fault_enumeration", Cpu: 4,
		Quick:    tierSpec{Runs: 30000, Budget: 75 * time.Second, Fed: []string{"f0", "f2"}},
		Thorough: tierSpec{Runs: 1500000, Budget: 15 * time.Minute, Fed: []string{"f0", "f1", "f2"}},
		Real:     []string{"federation runtime generated at check time from plugin/federation/federation.gotpl (representation grouping, per-type and per-entity goroutines, resolver selection by key, requires population)", "plugin/federation/fedruntime", "graphql/executor and generated executor"},
		Stubbed:  []string{"entity resolvers (echo resolvers that park at the scheduler and fail per plan)", "goroutine completion order (scheduler: first, seeded, burst)"},
		Rule: "one run = one _entities request with 0-8 representations over 6 entity types (single key, two alternative keys incl. an all-null first key, nested key, @requires, two batch/multi resolvers), few distinct key values so that duplicates and interleaved types are frequent, with no fault, one fault or a seeded pair from {resolver error, resolver panic, key of a JSON type the scalar rejects, missing key, unknown __typename, non-string __typename}; every resolver call parks and is released in a tape-chosen order. Oracle: element i equals the echo computed from representation i alone, or is null when representation i (or, for a batch resolver fault, its batch) was faulted; no fault means no error and a fault means at least one; RecoverFunc once per panicking call; race detector on. non-trivial = at least two representations; distinct = hash of (variant, representations with faults, schedule, event log)",
		Faults: "single and paired faults per representation: resolver error/panic, wrong-type key, missing key, unknown/non-string __typename; completion orders of per-type groups and per-entity goroutines",
		Assume: []string{"a missing @requires field is outside the statement and not injected", "explicit_requires / computed_requires variants need hand-written user code and are not generated (federation v2 default, function syntax and follow-schema layouts are)"},
	},
	"C10": {
		ID: "C10", Scenario: "wiresim", Race: false, Level: "fault_enumeration", Cpu: 2,
		Quick:    tierSpec{Runs: 40000, Budget: 75 * time.Second, Variants: []string{"v0"}},
		Thorough: tierSpec{Runs: 2000000, Budget: 15 * time.Minute, Variants: []string{"v0", "v6"}},
		Real:     []string{"every gqlgen transport: POST, GET, GRAPHQL, UrlEncodedForm, MultipartForm (upload mapping, limits, spill files), SSE, MultipartMixed, Websocket (both subprotocols, real gorilla peer over a pipe)", "graphql.RawParams.AddUpload", "graphql/handler.Server incl. its last-resort recover", "os temp files in a private TMPDIR", "generated executor with Upload scalar and nested input objects"},
		Stubbed:  []string{"request body stream (simhttp.Body: truncation + EOF / read error at a seeded byte, re-chunking, lying Content-Length, callback at a byte offset)", "resolvers (never panic; upload resolvers read every file fully and report name/type/size/digest)", "network for websocket (net.Pipe)"},
		Rule: "one run = one request on a seeded transport built from a valid base request and one fault: none, truncation at a seeded byte followed by EOF or by a read error, re-chunked reads, wrong Content-Length, or structured corruption of the JSON document (a seeded subtree replaced by null/number/string/array/object/bool or deleted); multipart uploads additionally: body over MaxUploadSize by 1..200 bytes, MaxMemory in {1, size-1, size} to force spill files, TMPDIR missing or removed at a seeded byte of the body, parts swapped/duplicated/dropped, a map path rewritten (wrong container kind, out-of-range / negative index, missing variable, missing prefix), operations without variables; websocket: 1-3 seeded frames from 40 malformed/edge messages before or after init, incl. torn frames. Oracle: RecoverFunc is never invoked (no user code panics here); the answer is a well-formed JSON GraphQL response (data, or non-empty errors with string messages; SSE events likewise; websocket frames are JSON objects with a type, a start is answered or the connection closed); no resolver runs for an over-limit body; the private TMPDIR is empty afterwards; well-formed uploads deliver exact bytes, filename and content type to every mapped path, read one after the other. non-trivial = a fault was injected or an upload was sent; distinct = hash of (transport, fault, fault detail, operation, status)",
		Faults: "stream truncation/read error at every byte position (sampled), short reads, Content-Length lies, structured JSON corruption, upload size limits, spill-to-disk, temp dir missing/removed mid-request, multipart part order/dup/drop, upload map path corruption, malformed websocket frames",
		Assume: []string{"'all byte strings' is not claimed: this is fault injection around valid requests, not fuzzing (DESIGN 5.10)", "read-only or full temp directories are not simulated (checks run as root; no mount)", "multipart/mixed framing itself is C12's concern"},
	},
}
