package main

import "time"

var realExec = []string{
	"executor generated at check time from /repo's codegen/*.gotpl (api.Generate + stubgen)",
	"graphql/* runtime (FieldSet, contexts, errors, collectFields)", "graphql/executor", "gqlparser",
}
var stubExec = []string{"resolvers/directives/custom scalar (universal resolver driven by the plan)", "goroutine release order (scheduler)", "clock (synctest)", "no transport: the response function is driven directly"}

var allCore = []string{"v0", "v1", "v2", "v3", "v4", "v5", "v6"}

var specs = map[string]*propSpec{
	"C01": {
		ID: "C01", Scenario: "execsim", Race: false, Level: "exploration", Cpu: 2,
		Quick:    tierSpec{Runs: 60000, Budget: 60 * time.Second, Variants: []string{"v0", "v1", "v3", "v6"}},
		Thorough: tierSpec{Runs: 3000000, Budget: 15 * time.Minute, Variants: allCore},
		Real:     realExec, Stubbed: stubExec,
		Rule: "one run = one (variant, operation, variables, plan, release discipline) executed in a synctest bubble with every resolver/directive call parked and released by the seeded scheduler; operations come from the hand-written corpus or the grammar generator (validated by gqlparser); the response is compared with the reference executor (data with key order, error multiset by path and class). non-trivial = at least two calls were parked together at some quiescent point or the plan produced at least one error; distinct = distinct hash of (variant, operation, plan parameters, released-key sequence)",
		Faults: "resolver outcome plan: value/null/error per position, directive pass/block/error/replace/pass-then-error",
		Assume: []string{"probe schemas, not random schemas (programs dimension narrowed, see DESIGN 5.1)", "model parameters P1/P2 (Go nilability of positions; nil slice at non-null list is [])", "gqlgen-authored error messages are matched by path only"},
	},
	"C06": {
		ID: "C06", Scenario: "execsim", Race: true, Level: "exploration", Cpu: 4,
		Quick:    tierSpec{Runs: 8000, Budget: 75 * time.Second, Variants: []string{"v0", "v3", "v4"}},
		Thorough: tierSpec{Runs: 400000, Budget: 15 * time.Minute, Variants: []string{"v0", "v1", "v2", "v3", "v4", "v5", "v6"}},
		Real:     realExec, Stubbed: stubExec,
		Rule: "one run = one (variant, operation, plan) executed under six schedules (first, last, deepest-first, 2 seeded one-at-a-time, 1 seeded burst releasing several calls at once) in one bubble of a -race binary; data and error multiset must be identical across schedules and equal to the reference; for mutations the parked set must stay inside one root field and roots must start in document order. non-trivial = at least two calls parked together; distinct = hash of (variant, operation, plan, the six released-key sequences)",
		Faults: "adversarial completion orders; burst releases for the race detector",
		Assume: []string{"interleavings are explored at the granularity of user callbacks (resolver/directive calls); finer interference is left to the race detector under burst releases"},
	},
}
