#!/bin/bash
# ./check.sh <property> [quick|thorough] [-- extra flags]   |   ./check.sh <property> --replay <file>
set -u
cd /verif
export PATH=/opt/veriftools/go1.26.8/bin:$PATH GOTOOLCHAIN=local GOFLAGS=-mod=mod GOPROXY=off GOSUMDB=off
./setup.sh quiet || exit 2
ID=$1; shift
if [ "${1:-}" = "--replay" ]; then
  exec ./bin/check -replay "$2" "$ID"
fi
TIER=${1:-quick}; [ $# -gt 0 ] && shift
exec ./bin/check "$@" "$ID" "$TIER"
